#!/bin/sh
# Runs the repository's test suite with the verification guard OFF and compares with the pinned baseline.
cd /repo || exit 2
TMP=$(mktemp /verif/work/baseline.XXXXXX) || exit 2
cargo nextest run --workspace --no-fail-fast --test-threads 8 --offline --status-level pass --final-status-level none --color never > "$TMP" 2>&1
grep -E '^\s+Summary' "$TMP"
python3 - "$TMP" <<'PY'
import sys, json, re
passed = set()
for line in open(sys.argv[1]):
    m = re.match(r'\s+PASS \[[^\]]*\]\s+(?:\(\s*\d+/\d+\)\s+)?(\S+)\s+(.*)$', line)
    if m:
        passed.add("%s::%s" % (m.group(1), m.group(2).strip()))
try:
    base = json.load(open('/root/.vp/BASELINE.json'))['stable_pass']
except Exception as e:
    print("no baseline file:", e); sys.exit(0 if passed else 1)
missing = [t for t in base if t not in passed]
print("baseline tests: %d, passing now: %d, missing: %d" % (len(base), len(base) - len(missing), len(missing)))
for t in missing[:20]:
    print("  MISSING", t)
sys.exit(1 if missing else 0)
PY
RC=$?
rm -f "$TMP"
exit $RC
