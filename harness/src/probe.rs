//! Probe element and probe iterators: report their own clone / drop / next to the trace.
use crate::alloc::Flag;
use crate::sched::{cur_tid, emit, w, yield_point, Pending};
use serde_json::json;
use std::cell::Cell;
use std::collections::VecDeque;

thread_local! {
    /// When off, `Tok` clone/drop are silent (harness disposing of its own values).
    static LEDGER: Cell<bool> = const { Cell::new(true) };
}

pub struct Quiet(bool);
impl Quiet {
    pub fn new() -> Self {
        Quiet(LEDGER.with(|c| c.replace(false)))
    }
}
impl Drop for Quiet {
    fn drop(&mut self) {
        let p = self.0;
        let _ = LEDGER.try_with(|c| c.set(p));
    }
}
fn ledger_on() -> bool {
    LEDGER.try_with(|c| c.get()).unwrap_or(false)
}

thread_local! {
    /// countdown to a panic inside `Tok::clone` (0 = disarmed)
    pub static CLONE_PANIC: Cell<usize> = const { Cell::new(0) };
}

/// id of the element whose destructor panics (0 = none); per process, one run at a time
pub static DROP_PANIC_ID: std::sync::atomic::AtomicU32 = std::sync::atomic::AtomicU32::new(0);

/// Probe element with identity.
#[derive(Debug, PartialEq, Eq)]
pub struct Tok {
    pub id: u32,
    pub pad: u32,
}

impl Tok {
    pub fn new(id: usize) -> Self {
        Tok {
            id: id as u32,
            pad: 0xA5A5_5A5A,
        }
    }
}

impl Clone for Tok {
    fn clone(&self) -> Self {
        if ledger_on() {
            let _g = Flag::off();
            emit(json!({"e":"CloneElem","t":cur_tid(),"id":self.id}));
            let fire = CLONE_PANIC.with(|c| {
                let v = c.get();
                if v > 0 {
                    c.set(v - 1);
                }
                v == 1
            });
            if fire {
                panic!("probe: clone panics");
            }
        }
        Tok {
            id: self.id,
            pad: self.pad,
        }
    }
}

impl Drop for Tok {
    fn drop(&mut self) {
        if ledger_on() {
            let _g = Flag::off();
            emit(json!({"e":"DropElem","t":cur_tid(),"id":self.id,"ok":self.pad==0xA5A5_5A5A}));
            if self.id != 0
                && self.id == DROP_PANIC_ID.load(std::sync::atomic::Ordering::Relaxed)
                && !std::thread::panicking()
            {
                DROP_PANIC_ID.store(0, std::sync::atomic::Ordering::Relaxed);
                panic!("probe: drop panics");
            }
        }
    }
}

#[derive(Debug, Clone, Copy, PartialEq)]
pub enum Hint {
    Exact,
    Inexact,
    Unbounded,
}

impl Hint {
    pub fn parse(s: &str) -> Hint {
        match s {
            "inexact" => Hint::Inexact,
            "unbounded" => Hint::Unbounded,
            _ => Hint::Exact,
        }
    }
}

/// Common part of the probe iterators.
pub struct ProbeCore {
    pub it: usize,
    pub calls: usize,
    pub panic_at: usize,
    pub hint: Hint,
    /// number of `None` answers before the source "revives" (non-fused source); 0 = fused
    pub in_next: bool,
}

impl ProbeCore {
    pub fn new(it: usize, hint: Hint, panic_at: usize) -> Self {
        Self {
            it,
            calls: 0,
            panic_at,
            hint,
            in_next: false,
        }
    }

    fn enter(&mut self) {
        let _g = Flag::off();
        yield_point(Pending::NextEnter);
        emit(json!({"e":"NextEnter","t":cur_tid(),"it":self.it,"reent":self.in_next}));
        self.in_next = true;
        self.calls += 1;
        yield_point(Pending::NextExit);
    }

    fn maybe_panic(&mut self) {
        if self.calls == self.panic_at {
            let _g = Flag::off();
            self.in_next = false;
            emit(json!({"e":"NextExit","t":cur_tid(),"it":self.it,"item":-2}));
            panic!("probe: next panics");
        }
    }

    fn exit(&mut self, item: i64) {
        let _g = Flag::off();
        self.in_next = false;
        emit(json!({"e":"NextExit","t":cur_tid(),"it":self.it,"item":item}));
    }

    fn hint(&self, rem: usize) -> (usize, Option<usize>) {
        match self.hint {
            Hint::Exact => (rem, Some(rem)),
            Hint::Inexact => (0, Some(rem)),
            Hint::Unbounded => (0, None),
        }
    }
}

/// Owning probe iterator.  `revive` > 0 makes it a non-fused source: after its first `None` it yields
/// `revive` further items (ids following the regular ones) before it is exhausted for good.
pub struct ProbeIter {
    pub items: VecDeque<Tok>,
    pub core: ProbeCore,
    pub revive: usize,
    pub next_id: usize,
    pub none_seen: bool,
}

impl Iterator for ProbeIter {
    type Item = Tok;
    fn next(&mut self) -> Option<Tok> {
        self.core.enter();
        self.core.maybe_panic();
        let mut x = self.items.pop_front();
        if x.is_none() {
            if self.none_seen && self.revive > 0 {
                self.revive -= 1;
                let _g = Flag::off();
                x = Some(Tok::new(self.next_id));
                self.next_id += 1;
            }
            self.none_seen = true;
        }
        self.core.exit(x.as_ref().map(|t| t.id as i64).unwrap_or(-1));
        x
    }
    fn size_hint(&self) -> (usize, Option<usize>) {
        self.core.hint(self.items.len())
    }
}

/// Probe iterator over references to tokens.
pub struct ProbeRefIter<'a> {
    pub items: std::slice::Iter<'a, Tok>,
    pub core: ProbeCore,
}

impl<'a> Iterator for ProbeRefIter<'a> {
    type Item = &'a Tok;
    fn next(&mut self) -> Option<&'a Tok> {
        self.core.enter();
        self.core.maybe_panic();
        let x = self.items.next();
        self.core.exit(x.map(|t| t.id as i64).unwrap_or(-1));
        x
    }
    fn size_hint(&self) -> (usize, Option<usize>) {
        self.core.hint(self.items.len())
    }
}

/// Probe iterator over references to plain numbers (for `copied`).
pub struct ProbeNumIter<'a> {
    pub items: std::slice::Iter<'a, usize>,
    pub core: ProbeCore,
}

impl<'a> Iterator for ProbeNumIter<'a> {
    type Item = &'a usize;
    fn next(&mut self) -> Option<&'a usize> {
        self.core.enter();
        self.core.maybe_panic();
        let x = self.items.next();
        self.core.exit(x.map(|t| *t as i64).unwrap_or(-1));
        x
    }
    fn size_hint(&self) -> (usize, Option<usize>) {
        self.core.hint(self.items.len())
    }
}

/// Observation of a delivered item: (value, index derived from the address or -1).
pub trait Obs: Sized {
    fn obs(self, base: usize, stride: usize, len: usize) -> (serde_json::Value, i64);
}

fn pidx(addr: usize, base: usize, stride: usize, len: usize) -> i64 {
    if stride == 0 || addr < base || (addr - base) % stride != 0 || (addr - base) / stride >= len {
        -2
    } else {
        ((addr - base) / stride) as i64
    }
}

impl Obs for Tok {
    fn obs(self, _: usize, _: usize, _: usize) -> (serde_json::Value, i64) {
        let id = self.id;
        std::mem::forget(self);
        (json!(id), -1)
    }
}
impl<'a> Obs for &'a Tok {
    fn obs(self, base: usize, stride: usize, len: usize) -> (serde_json::Value, i64) {
        (
            json!(self.id),
            pidx(self as *const Tok as usize, base, stride, len),
        )
    }
}
impl Obs for usize {
    fn obs(self, _: usize, _: usize, _: usize) -> (serde_json::Value, i64) {
        (w(self), -1)
    }
}
impl<'a> Obs for &'a usize {
    fn obs(self, base: usize, stride: usize, len: usize) -> (serde_json::Value, i64) {
        (
            w(*self),
            pidx(self as *const usize as usize, base, stride, len),
        )
    }
}
