//! Probe element and probe iterators: report their own clone / drop / next to the trace.
use crate::alloc::Flag;
use crate::sched::{cur_tid, emit, w, yield_point, Pending};
use serde_json::json;
use std::cell::Cell;
use std::collections::VecDeque;

thread_local! {
    /// When off, `Tok` clone/drop are silent (harness disposing of its own values).
    static LEDGER: Cell<bool> = const { Cell::new(true) };
}

pub struct Quiet(bool);
impl Quiet {
    pub fn new() -> Self {
        Quiet(LEDGER.with(|c| c.replace(false)))
    }
}
impl Drop for Quiet {
    fn drop(&mut self) {
        let p = self.0;
        let _ = LEDGER.try_with(|c| c.set(p));
    }
}
fn ledger_on() -> bool {
    LEDGER.try_with(|c| c.get()).unwrap_or(false)
}

/// countdown to a panic inside `clone` of a probe element (0 = disarmed); per process, one run at a time
pub static CLONE_PANIC: std::sync::atomic::AtomicUsize = std::sync::atomic::AtomicUsize::new(0);

fn clone_hook(id: u32) {
    let _g = Flag::off();
    // a scheduling point inside clone(): other threads may run while this one is "inside the clone"
    // (only in runs that arm a clone panic: elsewhere the adaptor must take the same schedule as its twin)
    if CLONE_PANIC.load(std::sync::atomic::Ordering::SeqCst) > 0 {
        yield_point(Pending::Probe);
    }
    emit(json!({"e":"CloneElem","t":cur_tid(),"id":id}));
    let v = CLONE_PANIC.load(std::sync::atomic::Ordering::SeqCst);
    if v > 0 {
        CLONE_PANIC.store(v - 1, std::sync::atomic::Ordering::SeqCst);
        if v == 1 {
            panic!("probe: clone panics");
        }
    }
}

fn drop_hook(id: u32, ok: bool) {
    let _g = Flag::off();
    emit(json!({"e":"DropElem","t":cur_tid(),"id":id,"ok":ok}));
    if id != 0 && id == DROP_PANIC_ID.load(std::sync::atomic::Ordering::Relaxed) && !std::thread::panicking() {
        DROP_PANIC_ID.store(0, std::sync::atomic::Ordering::Relaxed);
        panic!("probe: drop panics");
    }
}

/// id of the element whose destructor panics (0 = none); per process, one run at a time
pub static DROP_PANIC_ID: std::sync::atomic::AtomicU32 = std::sync::atomic::AtomicU32::new(0);

/// Probe element with identity.
#[derive(Debug, PartialEq, Eq)]
pub struct Tok {
    pub id: u32,
    pub pad: u32,
}

impl Tok {
    pub fn new(id: usize) -> Self {
        Tok {
            id: id as u32,
            pad: 0xA5A5_5A5A,
        }
    }
}

impl Clone for Tok {
    fn clone(&self) -> Self {
        if ledger_on() {
            clone_hook(self.id);
        }
        Tok {
            id: self.id,
            pad: self.pad,
        }
    }
}

impl Drop for Tok {
    fn drop(&mut self) {
        if ledger_on() {
            drop_hook(self.id, self.pad == 0xA5A5_5A5A);
        }
    }
}

/// Probe element that owns heap memory (a leaked element is a leaked allocation).
#[derive(Debug)]
pub struct HTok {
    pub id: u32,
    pub b: Box<u32>,
}
impl HTok {
    pub fn new(id: usize) -> Self {
        HTok { id: id as u32, b: Box::new(id as u32) }
    }
}
impl Drop for HTok {
    fn drop(&mut self) {
        if ledger_on() {
            drop_hook(self.id, *self.b == self.id);
        }
    }
}

#[derive(Debug, Clone, Copy, PartialEq)]
pub enum Hint {
    Exact,
    Inexact,
    Unbounded,
}

impl Hint {
    pub fn parse(s: &str) -> Hint {
        match s {
            "inexact" => Hint::Inexact,
            "unbounded" => Hint::Unbounded,
            _ => Hint::Exact,
        }
    }
}

/// Common part of the probe iterators.
pub struct ProbeCore {
    pub it: usize,
    pub calls: usize,
    pub panic_at: usize,
    pub hint: Hint,
    /// number of `None` answers before the source "revives" (non-fused source); 0 = fused
    pub in_next: bool,
}

impl ProbeCore {
    pub fn new(it: usize, hint: Hint, panic_at: usize) -> Self {
        Self {
            it,
            calls: 0,
            panic_at,
            hint,
            in_next: false,
        }
    }

    fn enter(&mut self) {
        let _g = Flag::off();
        yield_point(Pending::NextEnter);
        emit(json!({"e":"NextEnter","t":cur_tid(),"it":self.it,"reent":self.in_next}));
        self.in_next = true;
        self.calls += 1;
        yield_point(Pending::NextExit);
    }

    fn maybe_panic(&mut self) {
        if self.calls == self.panic_at {
            let _g = Flag::off();
            self.in_next = false;
            emit(json!({"e":"NextExit","t":cur_tid(),"it":self.it,"item":-2}));
            panic!("probe: next panics");
        }
    }

    fn exit(&mut self, item: i64) {
        let _g = Flag::off();
        self.in_next = false;
        emit(json!({"e":"NextExit","t":cur_tid(),"it":self.it,"item":item}));
    }

    fn hint(&self, rem: usize) -> (usize, Option<usize>) {
        {
            // an access of the wrapped iterator like any other: a scheduling point, and reported
            let _g = Flag::off();
            yield_point(Pending::Probe);
            emit(json!({"e":"HintRead","t":cur_tid(),"it":self.it,"busy":self.in_next}));
        }
        match self.hint {
            Hint::Exact => (rem, Some(rem)),
            Hint::Inexact => (0, Some(rem)),
            Hint::Unbounded => (0, None),
        }
    }
}

/// Owning probe iterator.  `revive` > 0 makes it a non-fused source: after its first `None` it yields
/// `revive` further items (ids following the regular ones) before it is exhausted for good.
pub struct ProbeIter<E = Tok> {
    pub items: VecDeque<E>,
    pub core: ProbeCore,
    pub revive: usize,
    pub next_id: usize,
    pub none_seen: bool,
}

pub trait ProbeElem {
    fn make(id: usize) -> Self;
    fn ident(&self) -> u32;
}
impl ProbeElem for Tok {
    fn make(id: usize) -> Self {
        Tok::new(id)
    }
    fn ident(&self) -> u32 {
        self.id
    }
}
impl ProbeElem for HTok {
    fn make(id: usize) -> Self {
        HTok::new(id)
    }
    fn ident(&self) -> u32 {
        self.id
    }
}

impl<E: ProbeElem> Iterator for ProbeIter<E> {
    type Item = E;
    fn next(&mut self) -> Option<E> {
        self.core.enter();
        self.core.maybe_panic();
        let mut x = self.items.pop_front();
        if x.is_none() {
            if self.none_seen && self.revive > 0 {
                self.revive -= 1;
                let _g = Flag::off();
                x = Some(E::make(self.next_id));
                self.next_id += 1;
            }
            self.none_seen = true;
        }
        self.core.exit(x.as_ref().map(|t| t.ident() as i64).unwrap_or(-1));
        x
    }
    fn size_hint(&self) -> (usize, Option<usize>) {
        self.core.hint(self.items.len())
    }
}

/// Probe iterator over references to tokens.
pub struct ProbeRefIter<'a> {
    pub items: std::slice::Iter<'a, Tok>,
    pub core: ProbeCore,
}

impl<'a> Iterator for ProbeRefIter<'a> {
    type Item = &'a Tok;
    fn next(&mut self) -> Option<&'a Tok> {
        self.core.enter();
        self.core.maybe_panic();
        let x = self.items.next();
        self.core.exit(x.map(|t| t.id as i64).unwrap_or(-1));
        x
    }
    fn size_hint(&self) -> (usize, Option<usize>) {
        self.core.hint(self.items.len())
    }
}

/// Probe iterator over references to plain numbers (for `copied`).
pub struct ProbeNumIter<'a> {
    pub items: std::slice::Iter<'a, usize>,
    pub core: ProbeCore,
}

impl<'a> Iterator for ProbeNumIter<'a> {
    type Item = &'a usize;
    fn next(&mut self) -> Option<&'a usize> {
        self.core.enter();
        self.core.maybe_panic();
        let x = self.items.next();
        self.core.exit(x.map(|t| *t as i64).unwrap_or(-1));
        x
    }
    fn size_hint(&self) -> (usize, Option<usize>) {
        self.core.hint(self.items.len())
    }
}

/// Observation of a delivered item: (value, index derived from the address or -1).
pub trait Obs: Sized {
    fn obs(self, base: usize, stride: usize, len: usize) -> (serde_json::Value, i64);
    /// observes an item which the caller then drops like any other value (its destructor is a ledger event)
    fn obs_dropped(self, base: usize, stride: usize, len: usize) -> serde_json::Value {
        self.obs(base, stride, len).0
    }
}

fn pidx(addr: usize, base: usize, stride: usize, len: usize) -> i64 {
    if stride == 0 || addr < base || (addr - base) % stride != 0 || (addr - base) / stride >= len {
        -2
    } else {
        ((addr - base) / stride) as i64
    }
}

impl Obs for Tok {
    fn obs(self, _: usize, _: usize, _: usize) -> (serde_json::Value, i64) {
        let id = self.id;
        std::mem::forget(self);
        (json!(id), -1)
    }
    fn obs_dropped(self, _: usize, _: usize, _: usize) -> serde_json::Value {
        let id = self.id;
        drop(self);
        json!(id)
    }
}
impl Obs for HTok {
    fn obs(self, _: usize, _: usize, _: usize) -> (serde_json::Value, i64) {
        let id = self.id;
        let _q = Quiet::new(); // the caller disposes of what it received: not a ledger event
        drop(self);
        (json!(id), -1)
    }
    fn obs_dropped(self, _: usize, _: usize, _: usize) -> serde_json::Value {
        let id = self.id;
        drop(self);
        json!(id)
    }
}
impl<'a> Obs for &'a Tok {
    fn obs(self, base: usize, stride: usize, len: usize) -> (serde_json::Value, i64) {
        (
            json!(self.id),
            pidx(self as *const Tok as usize, base, stride, len),
        )
    }
}
impl Obs for usize {
    fn obs(self, _: usize, _: usize, _: usize) -> (serde_json::Value, i64) {
        (w(self), -1)
    }
}
impl<'a> Obs for &'a usize {
    fn obs(self, base: usize, stride: usize, len: usize) -> (serde_json::Value, i64) {
        (
            w(*self),
            pidx(self as *const usize as usize, base, stride, len),
        )
    }
}

/// Zero-sized probe element: no identity, so the value reported for a delivered element is the order
/// of delivery within the run (equal to the position in sequential scripts).
pub struct Zt;
pub static ZSEQ: std::sync::atomic::AtomicUsize = std::sync::atomic::AtomicUsize::new(0);
impl Obs for Zt {
    fn obs(self, _: usize, _: usize, _: usize) -> (serde_json::Value, i64) {
        let k = ZSEQ.fetch_add(1, std::sync::atomic::Ordering::SeqCst);
        (json!(100 + k), -1)
    }
}
