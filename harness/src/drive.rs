//! Generic driver: executes a scenario on a concrete kind of concurrent iterator.
use crate::alloc::{self, counted, Flag};
use crate::probe::*;
use crate::scen::{Scenario, Step};
use crate::sched::*;
use orx_concurrent_iter::iter::atomic_iter::AtomicIter;
use orx_concurrent_iter::*;
use serde_json::{json, Value};
use std::collections::VecDeque;
use std::panic::{catch_unwind, resume_unwind, AssertUnwindSafe};
use std::sync::atomic::Ordering;
use std::sync::Arc;

pub const BASE_VAL: usize = 100;
const TAKE_CAP: usize = 1 << 12;

type BufFn<'a> = (usize, Box<dyn FnMut(Option<usize>, u8) -> Value + 'a>);

fn obs_item<T: Obs>(run: &Run, x: T) -> (Value, i64) {
    x.obs(
        run.src_base.load(Ordering::Relaxed),
        run.src_stride.load(Ordering::Relaxed),
        run.src_len.load(Ordering::Relaxed),
    )
}

fn none() -> Value {
    json!({"k":"none"})
}
fn unit() -> Value {
    json!({"k":"unit"})
}

fn observe_chunk<T: Obs, V: ExactSizeIterator<Item = T>>(
    run: &Run,
    begin: usize,
    values: V,
    take: Option<usize>,
    via: u8,
) -> Value {
    let _g = Flag::off();
    let alen = counted(|| values.len());
    let mut lens = vec![w(alen)];
    let mut vals = vec![];
    let mut pidxs = vec![];
    let cap = take.unwrap_or(usize::MAX).min(TAKE_CAP);
    let mut endnone = false;
    let mut n = 0;
    let mut rest = -1i64;
    let mut restvals: Vec<Value> = vec![];
    let mut values = Some(values);
    // a panic while the chunk is consumed or dropped (clone / destructor of an element): report what the
    // caller had already taken, then let the panic continue
    let r = catch_unwind(AssertUnwindSafe(|| {
        while n < cap {
            // the client may take the items out through any method of Iterator
            let it = values.as_mut().expect("present");
            let item = match via & 3 {
                1 => counted(|| it.nth(0)),
                2 => counted(|| it.by_ref().take(1).fold(None, |_, x| Some(x))),
                3 => counted(|| it.by_ref().find(|_| true)),
                _ => counted(|| it.next()),
            };
            match item {
                Some(x) => {
                    let (v, p) = obs_item(run, x);
                    vals.push(v);
                    pidxs.push(p);
                    lens.push(w(counted(|| it.len())));
                    n += 1;
                }
                None => {
                    endnone = true;
                    break;
                }
            }
        }
        // ... and may get rid of the rest through any of them, too (by value where the method takes `self`, so
        // that a specialisation of fold / count / last of the chunk iterator itself is what runs)
        if !endnone && cap < TAKE_CAP && via & 4 != 0 {
            match via & 3 {
                0 => {
                    let it = values.take().expect("present");
                    let got = counted(|| it.fold(Vec::new(), |mut a, x| {
                        a.push(x);
                        a
                    }));
                    // the client looks at them and drops them, in order (what dropping the chunk would have done)
                    for x in got {
                        restvals.push(x.obs_dropped(
                            run.src_base.load(Ordering::Relaxed),
                            run.src_stride.load(Ordering::Relaxed),
                            run.src_len.load(Ordering::Relaxed),
                        ));
                    }
                    rest = restvals.len() as i64;
                }
                1 => {
                    let it = values.as_mut().expect("present");
                    if let Some(x) = counted(|| it.nth(usize::MAX)) {
                        vals.push(obs_item(run, x).0); // there is no such item: reported, the monitor rejects it
                    }
                    rest = counted(|| it.len()) as i64 + alen.saturating_sub(n) as i64;
                }
                2 => {
                    let it = values.take().expect("present");
                    rest = counted(|| it.count()) as i64;
                }
                _ => {
                    let it = values.take().expect("present");
                    let left = counted(|| it.len());
                    let last = counted(|| it.last());
                    rest = if last.is_some() == (left > 0) { left as i64 } else { -2 };
                    counted(|| drop(last));
                }
            }
        }
        counted(|| drop(values.take()));
    }));
    if let Err(p) = r {
        if !p.is::<Poison>() {
            run.emit(json!({"e":"Partial","t":cur_tid(),"vals":vals}));
        }
        resume_unwind(p);
    }
    json!({"k":"chunk","b":w(begin),"alen":w(alen),"vals":vals,"pidx":pidxs,"lens":lens,"endnone":endnone,"rest":rest,"restvals":restvals})
}

fn visit(run: &Run, idx: i64, idxw: Option<usize>, v: Value, p: i64) {
    let i = match idxw {
        Some(i) => w(i),
        None => json!(idx),
    };
    run.emit(json!({"e":"Visit","t":cur_tid(),"idx":i,"val":v,"pidx":p}));
}

fn arg(st: &Step) -> usize {
    st.n.as_ref().map(unw).unwrap_or(1)
}

/// Runs a closure when dropped while the thread is unwinding (a "finish the work on drop" guard of a client).
struct OnUnwind<'a>(Box<dyn Fn() + 'a>);
impl Drop for OnUnwind<'_> {
    fn drop(&mut self) {
        if std::thread::panicking() {
            (self.0)();
        }
    }
}

fn exec<'a, I>(
    run: &Arc<Run>,
    its: &'a [Option<I>],
    bufs: &mut [Option<BufFn<'a>>],
    st: &Step,
    cloner: Option<fn(&I) -> I>,
) -> Value
where
    I: ConcurrentIter + AtomicIter<<I as ConcurrentIter>::Item>,
    I::Item: Obs,
{
    let Some(it) = its.get(st.it).and_then(|x| x.as_ref()) else {
        return json!({"k":"noiter"});
    };
    match st.op.as_str() {
        "next" => match counted(|| ConcurrentIter::next(it)) {
            None => none(),
            Some(x) => {
                let (v, p) = obs_item(run, x);
                json!({"k":"item","idx":-1,"val":v,"pidx":p})
            }
        },
        "nextid" => match counted(|| it.next_id_and_value()) {
            None => none(),
            Some(x) => {
                let (v, p) = obs_item(run, x.value);
                json!({"k":"item","idx":w(x.idx),"val":v,"pidx":p})
            }
        },
        "chunk" => {
            let n = arg(st);
            match counted(|| it.next_chunk(n)) {
                None => none(),
                Some(c) => observe_chunk(run, c.begin_idx, c.values, st.take, st.via),
            }
        }
        "fetchn" => {
            let n = arg(st);
            match counted(|| AtomicIter::fetch_n(it, n)) {
                None => none(),
                Some(c) => observe_chunk(run, c.begin_idx, c.values, st.take, st.via),
            }
        }
        "bnew" => {
            let n = arg(st);
            let mut b = counted(|| it.buffered_iter(n));
            let run2 = run.clone();
            bufs[st.it] = Some((
                n,
                Box::new(move |take, via| match counted(|| b.next()) {
                    None => none(),
                    Some(c) => observe_chunk(&run2, c.begin_idx, c.values, take, via),
                }),
            ));
            unit()
        }
        "bnext" => match bufs[st.it].as_mut() {
            None => json!({"k":"nobuf"}),
            Some(f) => (f.1)(st.take, st.via),
        },
        "bdrop" => {
            let b = bufs[st.it].take();
            counted(|| drop(b));
            unit()
        }
        "foreach" | "eforeach" => {
            let c = arg(st);
            let mut cnt = 0usize;
            let pa = st.panic_at;
            if st.op == "foreach" {
                counted(|| {
                    it.for_each(c, |x| {
                        let _g = Flag::off();
                        let (v, p) = obs_item(run, x);
                        visit(run, -1, None, v, p);
                        cnt += 1;
                        if cnt == pa {
                            let _pull = unwind_guard(run, it, st.unwind);
                            panic!("probe: closure panics");
                        }
                    })
                });
            } else {
                counted(|| {
                    it.enumerate_for_each(c, |i, x| {
                        let _g = Flag::off();
                        let (v, p) = obs_item(run, x);
                        visit(run, 0, Some(i), v, p);
                        cnt += 1;
                        if cnt == pa {
                            let _pull = unwind_guard(run, it, st.unwind);
                            panic!("probe: closure panics");
                        }
                    })
                });
            }
            unit()
        }
        "fold" => {
            let c = arg(st);
            let mut cnt = 0usize;
            let pa = st.panic_at;
            let r: Vec<Value> = counted(|| {
                it.fold(c, Vec::new(), |mut acc, x| {
                    let _g = Flag::off();
                    let (v, p) = obs_item(run, x);
                    visit(run, -1, None, v.clone(), p);
                    acc.push(v);
                    cnt += 1;
                    if cnt == pa {
                        let _pull = unwind_guard(run, it, st.unwind);
                        panic!("probe: closure panics");
                    }
                    acc
                })
            });
            let _g = Flag::off();
            json!({"k":"fold","vals":r})
        }
        "values" => {
            let k = st.take.unwrap_or(usize::MAX);
            counted(|| {
                for x in it.values().take(k) {
                    let _g = Flag::off();
                    let (v, p) = obs_item(run, x);
                    visit(run, -1, None, v, p);
                }
            });
            unit()
        }
        "idsvalues" => {
            let k = st.take.unwrap_or(usize::MAX);
            counted(|| {
                for (i, x) in it.ids_and_values().take(k) {
                    let _g = Flag::off();
                    let (v, p) = obs_item(run, x);
                    visit(run, 0, Some(i), v, p);
                }
            });
            unit()
        }
        "skip" => {
            counted(|| it.skip_to_end());
            unit()
        }
        "cloneuse" => match cloner {
            None => json!({"k":"noiter"}),
            Some(f) => {
                // clone the shared iterator while others pull from it, then drain the clone
                let c = counted(|| f(it));
                let mut vals = vec![];
                while let Some(x) = counted(|| ConcurrentIter::next(&c)) {
                    vals.push(obs_item(run, x).0);
                    if vals.len() > TAKE_CAP {
                        break;
                    }
                }
                counted(|| drop(c));
                json!({"k":"cloneseq","vals":vals})
            }
        },
        "len" => match counted(|| it.try_get_len()) {
            None => json!({"k":"len","some":false,"v":0}),
            Some(v) => json!({"k":"len","some":true,"v":w(v)}),
        },
        "hasmore" => match counted(|| it.has_more()) {
            HasMore::Yes(v) => json!({"k":"hasmore","a":"yes","v":w(v)}),
            HasMore::No => json!({"k":"hasmore","a":"no","v":0}),
            HasMore::Maybe => json!({"k":"hasmore","a":"maybe","v":0}),
        },
        "get" => match counted(|| AtomicIter::get(it, arg(st))) {
            None => none(),
            Some(x) => {
                let (v, p) = obs_item(run, x);
                json!({"k":"item","idx":w(arg(st)),"val":v,"pidx":p})
            }
        },
        "pagbi" => match counted(|| it.progress_and_get_begin_idx(arg(st))) {
            None => json!({"k":"idx","some":false,"v":0}),
            Some(v) => json!({"k":"idx","some":true,"v":w(v)}),
        },
        "cstore" => {
            counted(|| it.counter().store(arg(st)));
            unit()
        }
        "cload" => {
            let v = counted(|| it.counter().current());
            json!({"k":"idx","some":true,"v":w(v)})
        }
        other => json!({"k":"badop","op":other}),
    }
}

/// while the calling thread unwinds, its guard pulls once more from the iterator (and reports what it got)
fn unwind_guard<'a, I>(run: &'a Arc<Run>, it: &'a I, armed: bool) -> Option<OnUnwind<'a>>
where
    I: ConcurrentIter,
    I::Item: Obs,
{
    if !armed {
        return None;
    }
    Some(OnUnwind(Box::new(move || {
        let r = counted(|| ConcurrentIter::next(it));
        let _g = Flag::off();
        if let Some(x) = r {
            let (v, p) = obs_item(run, x);
            run.emit(json!({"e":"Visit","t":cur_tid(),"idx":-1,"val":v,"pidx":p,"unwind":true}));
        }
    })))
}

fn panic_msg(p: &Box<dyn std::any::Any + Send>) -> String {
    if let Some(s) = p.downcast_ref::<&str>() {
        s.to_string()
    } else if let Some(s) = p.downcast_ref::<String>() {
        s.clone()
    } else {
        "?".to_string()
    }
}

fn call_event(tid: usize, st: &Step) -> Value {
    json!({"e":"Call","t":tid,"it":st.it,"op":st.op,"n":st.n.clone().unwrap_or(json!(0)),
           "take":st.take.map(|x| x as i64).unwrap_or(-1),"pa":st.panic_at,"via":st.via})
}

/// Runs a straight-line program of `&self` operations; used by workers and by the owner thread.
fn run_prog<'a, I>(run: &Arc<Run>, tid: usize, its: &'a [Option<I>], prog: &[Step], cloner: Option<fn(&I) -> I>)
where
    I: ConcurrentIter + AtomicIter<<I as ConcurrentIter>::Item>,
    I::Item: Obs,
{
    let mut bufs: Vec<Option<BufFn<'a>>> = (0..its.len()).map(|_| None).collect();
    for st in prog {
        yield_point(Pending::Call);
        mark_call(true);
        let mut ce = call_event(tid, st);
        if st.op == "bnext" {
            if let Some(Some(b)) = bufs.get(st.it) {
                ce["n"] = w(b.0);
            }
        }
        run.emit(ce);
        let res = match catch_unwind(AssertUnwindSafe(|| exec(run, its, &mut bufs, st, cloner))) {
            Ok(v) => v,
            Err(p) => {
                if p.is::<Poison>() {
                    resume_unwind(p)
                } else {
                    let _g = Flag::off();
                    let msg = panic_msg(&p);
                    json!({"k":"panic","probe":msg.starts_with("probe:"),"msg":msg})
                }
            }
        };
        yield_point(Pending::Ret);
        run.emit(json!({"e":"Ret","t":tid,"it":st.it,"op":st.op,"res":res}));
        mark_call(false);
    }
    // the buffered iterators the program still holds go with it; a destructor of a leftover may panic (probe):
    // the thread is then gone, not hung - the panic must not escape before the scheduler has been told
    if let Err(p) = catch_unwind(AssertUnwindSafe(|| counted(|| drop(bufs)))) {
        if p.is::<Poison>() {
            resume_unwind(p);
        }
    }
}

fn is_owner_op(op: &str) -> bool {
    matches!(op, "clone" | "intoseq" | "drop")
}

fn owner_phase<I>(
    run: &Arc<Run>,
    its: &mut Vec<Option<I>>,
    prog: &[Step],
    cloner: Option<fn(&I) -> I>,
) where
    I: ConcurrentIter + AtomicIter<<I as ConcurrentIter>::Item>,
    I::Item: Obs,
{
    let mut i = 0;
    while i < prog.len() {
        let mut j = i;
        while j < prog.len() && !is_owner_op(&prog[j].op) {
            j += 1;
        }
        if j > i {
            run_prog(run, 0, &its[..], &prog[i..j], cloner);
        }
        if j < prog.len() {
            let st = &prog[j];
            run.emit(call_event(0, st));
            let res = match catch_unwind(AssertUnwindSafe(|| match st.op.as_str() {
                "clone" => match (cloner, its.get(st.it).and_then(|x| x.as_ref())) {
                    (Some(f), Some(src)) => {
                        let c = counted(|| f(src));
                        its.push(Some(c));
                        json!({"k":"cloned","new":its.len()-1})
                    }
                    _ => json!({"k":"noiter"}),
                },
                "drop" => match its.get_mut(st.it).and_then(|x| x.take()) {
                    Some(it) => {
                        counted(|| drop(it));
                        unit()
                    }
                    None => json!({"k":"noiter"}),
                },
                _ => match its.get_mut(st.it).and_then(|x| x.take()) {
                    Some(it) => {
                        let mut s = counted(|| it.into_seq_iter());
                        let cap = st.take.unwrap_or(usize::MAX).min(TAKE_CAP);
                        let mut vals = vec![];
                        let mut full = false;
                        let r = catch_unwind(AssertUnwindSafe(|| {
                            while vals.len() < cap {
                                match counted(|| s.next()) {
                                    Some(x) => vals.push(obs_item(run, x).0),
                                    None => {
                                        full = true;
                                        break;
                                    }
                                }
                            }
                            counted(|| drop(s));
                        }));
                        if let Err(p) = r {
                            if !p.is::<Poison>() {
                                run.emit(json!({"e":"Partial","t":0,"vals":vals}));
                            }
                            resume_unwind(p);
                        }
                        json!({"k":"seq","vals":vals,"full":full})
                    }
                    None => json!({"k":"noiter"}),
                },
            })) {
                Ok(v) => v,
                Err(p) => {
                    let msg = panic_msg(&p);
                    json!({"k":"panic","probe":msg.starts_with("probe:"),"msg":msg})
                }
            };
            run.emit(json!({"e":"Ret","t":0,"it":st.it,"op":st.op,"res":res}));
            j += 1;
        }
        i = j;
    }
}

pub struct Meta {
    pub hang: bool,
    pub overlap: bool,
    pub steps: usize,
    pub sched_taken: Vec<usize>,
}

/// Executes all phases of the scenario on the given iterator.
fn drive<I>(run: &Arc<Run>, sc: &Scenario, first: I, cloner: Option<fn(&I) -> I>) -> Meta
where
    I: ConcurrentIter + AtomicIter<<I as ConcurrentIter>::Item>,
    I::Item: Obs,
{
    let mut its: Vec<Option<I>> = vec![Some(first)];
    run.emit(json!({"e":"Mem","at":"built","live":alloc::live()}));
    owner_phase(run, &mut its, &sc.pre, cloner);
    let n = sc.threads.len();
    let mut meta = Meta {
        hang: false,
        overlap: false,
        steps: 0,
        sched_taken: vec![],
    };
    if n > 0 {
        let pol = Policy {
            sched: sc.sched.clone(),
            policy: sc.policy.clone(),
            seed: sc.seed,
            freeze: sc.freeze,
            max_steps: 20000,
        };
        let its_ref = &its[..];
        let out = std::thread::scope(|s| {
            for t in 1..=n {
                let run = run.clone();
                let prog = &sc.threads[t - 1];
                s.spawn(move || {
                    enter(&run, t, true);
                    let r = catch_unwind(AssertUnwindSafe(|| run_prog(&run, t, its_ref, prog, cloner)));
                    match r {
                        Ok(_) => done(),
                        // any other panic that ends the program of a worker (there is none left on the current
                        // tree): the thread has ended, which is not a hang
                        Err(p) if !p.is::<Poison>() => done(),
                        Err(_) => {}
                    }
                    leave();
                });
            }
            control(run, n, &pol)
        });
        meta.hang = !out.hang.is_empty();
        meta.overlap = out.overlap;
        meta.steps = out.steps;
        meta.sched_taken = std::mem::take(
            &mut run
                .inner
                .lock()
                .unwrap_or_else(|e| e.into_inner())
                .sched_taken,
        );
        if meta.hang || sc.freeze.is_some() {
            // abandoned workers have unwound; the shared state is not examined further
            run.inner.lock().unwrap_or_else(|e| e.into_inner()).poisoned = true;
            let _q = Quiet::new();
            drop(its);
            return meta;
        }
    }
    owner_phase(run, &mut its, &sc.post, cloner);
    // implicit drop of whatever is left, in creation order
    for k in 0..its.len() {
        if its[k].is_some() {
            let st = Step {
                op: "drop".into(),
                it: k,
                ..Default::default()
            };
            owner_phase(run, &mut its, std::slice::from_ref(&st), cloner);
        }
    }
    meta
}

fn toks(len: usize) -> Vec<Tok> {
    (0..len).map(|i| Tok::new(BASE_VAL + i)).collect()
}

fn set_src<T>(run: &Run, s: &[T]) {
    run.src_base.store(s.as_ptr() as usize, Ordering::Relaxed);
    run.src_stride
        .store(std::mem::size_of::<T>(), Ordering::Relaxed);
    run.src_len.store(s.len(), Ordering::Relaxed);
}

fn src_check(run: &Run, s: &[Tok]) {
    let ok = s
        .iter()
        .enumerate()
        .all(|(i, t)| t.id as usize == BASE_VAL + i && t.pad == 0xA5A5_5A5A);
    run.emit(json!({"e":"SrcCheck","ok":ok}));
}
fn src_check_num(run: &Run, s: &[usize]) {
    let ok = s.iter().enumerate().all(|(i, t)| *t == BASE_VAL + i);
    run.emit(json!({"e":"SrcCheck","ok":ok}));
}

macro_rules! with_array {
    ($len:expr, $v:expr, $f:ident, [$($n:literal),*]) => {
        match $len {
            $($n => {
                let a: [Tok; $n] = match <[Tok; $n]>::try_from($v) { Ok(a) => a, Err(_) => unreachable!() };
                $f!(a)
            })*
            _ => panic!("unsupported array length"),
        }
    };
}

pub fn family(kind: &str) -> &'static str {
    match kind {
        "iter" | "iter_h" | "refiter" | "numrefiter" | "cloned_iter" | "copied_iter" => "ticket",
        _ => "counter",
    }
}
pub fn consuming(kind: &str) -> bool {
    matches!(kind, "vec" | "array" | "iter" | "vec_zst" | "array_zst" | "vec_h" | "iter_h")
}

/// Runs one scenario and returns its trace lines.
pub fn run_scenario(sc: &Scenario, idx: usize) -> (Vec<String>, Meta) {
    let n = sc.threads.len();
    let run = Run::new(n);
    enter(&run, 0, false);
    alloc::reset();
    let len = sc.len;
    let start = sc.start.as_ref().map(unw).unwrap_or(0);
    let end = sc.end.as_ref().map(unw).unwrap_or(start.wrapping_add(len));
    let profile = if cfg!(debug_assertions) { "dbg" } else { "rel" };
    let src_vals: Vec<Value> = if sc.kind == "range" {
        vec![]
    } else {
        (0..len.min(256)).map(|i| json!(BASE_VAL + i)).collect()
    };
    run.emit(json!({"e":"Reset","run":sc.id,"idx":idx,"kind":sc.kind,"fam":family(&sc.kind),
        // a size hint of (0, Some(0)) is exact whatever the probe calls it
        "hint": if sc.hint.is_empty() || (sc.hint == "inexact" && len == 0) {"exact"} else {sc.hint.as_str()},
        "len":len,"src":src_vals,"start":w(start),"end":w(end),"threads":n,"profile":profile,
        "consuming":consuming(&sc.kind),"pnext":sc.panic_next,"revive":sc.revive,"dpanic":sc.drop_panic,"cpanic":sc.clone_panic,"tag":if sc.tag.is_null() {json!("")} else {sc.tag.clone()}}));
    run.emit(json!({"e":"Mem","at":"start","live":alloc::live()}));
    let hint = Hint::parse(&sc.hint);
    DROP_PANIC_ID.store(sc.drop_panic, Ordering::Relaxed);
    CLONE_PANIC.store(sc.clone_panic, Ordering::SeqCst);
    let meta = match catch_unwind(AssertUnwindSafe(|| match sc.kind.as_str() {
        "slice" => {
            let src = counted(|| toks(len));
            set_src(&run, &src);
            let it = counted(|| src.as_slice().into_con_iter());
            let m = drive(&run, sc, it, Some(|i: &ConIterOfSlice<'_, Tok>| i.clone()));
            src_check(&run, &src);
            let _q = Quiet::new();
            drop(src);
            m
        }
        "vecref" => {
            let src = counted(|| toks(len));
            set_src(&run, &src);
            let it = counted(|| src.con_iter());
            let m = drive(&run, sc, it, Some(|i: &ConIterOfSlice<'_, Tok>| i.clone()));
            src_check(&run, &src);
            let _q = Quiet::new();
            drop(src);
            m
        }
        "arrref" => {
            let v = counted(|| toks(len));
            macro_rules! go {
                ($a:ident) => {{
                    set_src(&run, &$a[..]);
                    let it = counted(|| $a.con_iter());
                    let m = drive(&run, sc, it, Some(|i: &ConIterOfSlice<'_, Tok>| i.clone()));
                    src_check(&run, &$a[..]);
                    let _q = Quiet::new();
                    drop($a);
                    m
                }};
            }
            with_array!(len, v, go, [0, 1, 2, 3, 4, 5, 6, 8])
        }
        "range" => {
            let it = counted(|| IntoConcurrentIter::into_con_iter(start..end));
            drive(&run, sc, it, Some(|i: &ConIterOfRange<usize>| i.clone()))
        }
        "rangeref" => {
            let r = start..end;
            let it = counted(|| r.con_iter());
            drive(&run, sc, it, Some(|i: &ConIterOfRange<usize>| i.clone()))
        }
        "vec" => {
            let src = counted(|| toks(len));
            let it = counted(|| src.into_con_iter());
            drive(&run, sc, it, None)
        }
        "array" => {
            let v = counted(|| toks(len));
            macro_rules! go {
                ($a:ident) => {{
                    let it = counted(|| $a.into_con_iter());
                    drive(&run, sc, it, None)
                }};
            }
            with_array!(len, v, go, [0, 1, 2, 3, 4, 5, 6, 8])
        }
        "vec_h" => {
            let src: Vec<HTok> = counted(|| (0..len).map(|i| HTok::new(BASE_VAL + i)).collect());
            let it = counted(|| src.into_con_iter());
            drive(&run, sc, it, None)
        }
        "iter_h" => {
            let p = counted(|| ProbeIter::<HTok> {
                items: (0..len).map(|i| HTok::new(BASE_VAL + i)).collect::<VecDeque<_>>(),
                core: ProbeCore::new(0, hint, sc.panic_next),
                revive: sc.revive,
                next_id: BASE_VAL + len,
                none_seen: false,
            });
            let it = counted(|| p.into_con_iter());
            drive(&run, sc, it, None)
        }
        "vec_zst" => {
            ZSEQ.store(0, Ordering::SeqCst);
            let src: Vec<Zt> = (0..len).map(|_| Zt).collect();
            let it = counted(|| src.into_con_iter());
            drive(&run, sc, it, None)
        }
        "array_zst" => {
            ZSEQ.store(0, Ordering::SeqCst);
            macro_rules! goz {
                ($($n:literal),*) => {
                    match len {
                        $($n => {
                            let a: [Zt; $n] = std::array::from_fn(|_| Zt);
                            let it = counted(|| a.into_con_iter());
                            drive(&run, sc, it, None)
                        })*
                        _ => panic!("unsupported array length"),
                    }
                };
            }
            goz!(0, 1, 2, 3, 4, 5, 6, 8)
        }
        "iter" => {
            let p = counted(|| ProbeIter::<Tok> {
                items: toks(len).into_iter().collect::<VecDeque<_>>(),
                core: ProbeCore::new(0, hint, sc.panic_next),
                revive: sc.revive,
                next_id: BASE_VAL + len,
                none_seen: false,
            });
            let it = counted(|| p.into_con_iter());
            drive(&run, sc, it, None)
        }
        "cloned_slice" => {
            let src = counted(|| toks(len));
            set_src(&run, &src);
            let it = counted(|| src.as_slice().into_con_iter().cloned());
            let m = drive(&run, sc, it, None);
            src_check(&run, &src);
            let _q = Quiet::new();
            drop(src);
            m
        }
        "copied_slice" => {
            let src: Vec<usize> = counted(|| (0..len).map(|i| BASE_VAL + i).collect());
            set_src(&run, &src);
            let it = counted(|| src.as_slice().into_con_iter().copied());
            let m = drive(&run, sc, it, None);
            src_check_num(&run, &src);
            drop(src);
            m
        }
        "numslice" => {
            let src: Vec<usize> = counted(|| (0..len).map(|i| BASE_VAL + i).collect());
            set_src(&run, &src);
            let it = counted(|| src.as_slice().into_con_iter());
            let m = drive(&run, sc, it, Some(|i: &ConIterOfSlice<'_, usize>| i.clone()));
            src_check_num(&run, &src);
            drop(src);
            m
        }
        "refiter" => {
            let src = counted(|| toks(len));
            set_src(&run, &src);
            let p = ProbeRefIter {
                items: src.iter(),
                core: ProbeCore::new(0, hint, sc.panic_next),
            };
            let it = counted(|| p.into_con_iter());
            let m = drive(&run, sc, it, None);
            src_check(&run, &src);
            let _q = Quiet::new();
            drop(src);
            m
        }
        "cloned_iter" => {
            let src = counted(|| toks(len));
            set_src(&run, &src);
            let p = ProbeRefIter {
                items: src.iter(),
                core: ProbeCore::new(0, hint, sc.panic_next),
            };
            let it = counted(|| p.into_con_iter().cloned());
            let m = drive(&run, sc, it, None);
            src_check(&run, &src);
            let _q = Quiet::new();
            drop(src);
            m
        }
        "numrefiter" => {
            let src: Vec<usize> = counted(|| (0..len).map(|i| BASE_VAL + i).collect());
            set_src(&run, &src);
            let p = ProbeNumIter {
                items: src.iter(),
                core: ProbeCore::new(0, hint, sc.panic_next),
            };
            let it = counted(|| p.into_con_iter());
            let m = drive(&run, sc, it, None);
            src_check_num(&run, &src);
            drop(src);
            m
        }
        "copied_iter" => {
            let src: Vec<usize> = counted(|| (0..len).map(|i| BASE_VAL + i).collect());
            set_src(&run, &src);
            let p = ProbeNumIter {
                items: src.iter(),
                core: ProbeCore::new(0, hint, sc.panic_next),
            };
            let it = counted(|| p.into_con_iter().copied());
            let m = drive(&run, sc, it, None);
            src_check_num(&run, &src);
            drop(src);
            m
        }
        other => {
            run.emit(json!({"e":"BadKind","kind":other}));
            Meta {
                hang: false,
                overlap: false,
                steps: 0,
                sched_taken: vec![],
            }
        }
    })) {
        Ok(m) => m,
        // the owner thread was unwound out of a call that could not return (Hang event is in the trace)
        Err(_) => Meta {
            hang: true,
            overlap: false,
            steps: 0,
            sched_taken: vec![],
        },
    };
    DROP_PANIC_ID.store(0, Ordering::Relaxed);
    CLONE_PANIC.store(0, Ordering::SeqCst);
    if !meta.hang && sc.freeze.is_none() {
        run.emit(json!({"e":"Mem","at":"end","live":alloc::live()}));
    }
    let mut lines = run.take_trace();
    {
        let mut g = run.inner.lock().unwrap_or_else(|e| e.into_inner());
        g.poisoned = false;
    }
    lines.push(
        json!({"e":"End","run":sc.id,"steps":meta.steps,"overlap":meta.overlap,"sched":meta.sched_taken})
            .to_string(),
    );
    leave();
    (lines, meta)
}
