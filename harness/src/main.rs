//! vh — verification harness for orx-concurrent-iter.
//!
//!   vh run <scenarios.ndjson> <out-prefix> [--jobs J]   parent: shards the scenarios over J children,
//!                                                       writes <out-prefix>.<k>.ndjson (one per shard)
//!   vh child <scenarios.ndjson> <from> <to>             executes scenarios [from,to), trace on stdout
mod alloc;
mod drive;
mod probe;
mod scen;
mod sched;

use std::io::{BufRead, BufReader, Write};
use std::process::{Command, Stdio};

#[global_allocator]
static GLOBAL: alloc::Counting = alloc::Counting;

fn load(path: &str) -> Vec<String> {
    let f = std::fs::File::open(path).expect("scenario file");
    BufReader::new(f)
        .lines()
        .map(|l| l.expect("line"))
        .filter(|l| !l.trim().is_empty())
        .collect()
}

fn child(path: &str, from: usize, to: usize) {
    std::panic::set_hook(Box::new(|_| {}));
    assert!(orx_concurrent_iter::verif::set_tracer(Box::new(
        sched::HarnessTracer
    )));
    let lines = load(path);
    let out = std::io::stdout();
    for (idx, line) in lines.iter().enumerate().take(to).skip(from) {
        let sc: scen::Scenario = match serde_json::from_str(line) {
            Ok(s) => s,
            Err(e) => {
                eprintln!("bad scenario at line {idx}: {e}");
                std::process::exit(3);
            }
        };
        {
            let mut o = out.lock();
            writeln!(o, "{{\"e\":\"Begin\",\"idx\":{idx},\"run\":{}}}", sc.id).unwrap();
            o.flush().unwrap();
        }
        let (trace, _meta) = drive::run_scenario(&sc, idx);
        let mut o = out.lock();
        for l in trace {
            o.write_all(l.as_bytes()).unwrap();
            o.write_all(b"\n").unwrap();
        }
        o.flush().unwrap();
    }
}

/// Runs scenarios [from,to) in child processes, restarting after an abort; returns the trace lines.
fn shard(exe: &str, path: &str, from: usize, to: usize, outpath: &str) -> (usize, usize) {
    let mut out = std::io::BufWriter::new(std::fs::File::create(outpath).expect("out file"));
    let mut next = from;
    let mut runs = 0usize;
    let mut aborts = 0usize;
    while next < to {
        let mut ch = Command::new(exe)
            .args(["child", path, &next.to_string(), &to.to_string()])
            .stdout(Stdio::piped())
            .stderr(Stdio::null())
            .spawn()
            .expect("spawn child");
        let rd = BufReader::new(ch.stdout.take().unwrap());
        let mut open: Option<(usize, u64)> = None;
        let mut buffered: Vec<String> = vec![];
        for l in rd.lines() {
            let l = l.expect("child line");
            if l.starts_with("{\"e\":\"Begin\"") {
                let v: serde_json::Value = serde_json::from_str(&l).unwrap();
                open = Some((
                    v["idx"].as_u64().unwrap() as usize,
                    v["run"].as_u64().unwrap(),
                ));
                buffered.clear();
                continue;
            }
            let is_end = l.starts_with("{\"e\":\"End\"");
            out.write_all(l.as_bytes()).unwrap();
            out.write_all(b"\n").unwrap();
            if is_end {
                if let Some((idx, _)) = open.take() {
                    next = idx + 1;
                    runs += 1;
                }
            }
        }
        let status = ch.wait().expect("wait");
        if let Some((idx, run)) = open {
            // the child died inside this run: nothing of the run was flushed
            use std::os::unix::process::ExitStatusExt;
            let sig = status.signal().unwrap_or(0);
            let code = status.code().unwrap_or(-1);
            let sc: serde_json::Value = serde_json::from_str(&load(path)[idx]).unwrap();
            writeln!(
                out,
                "{}",
                serde_json::json!({"e":"Reset","run":run,"idx":idx,"kind":sc["kind"],"fam":drive::family(sc["kind"].as_str().unwrap_or("")),
                    "hint":"exact","len":sc["len"].as_u64().unwrap_or(0),"src":[],"start":0,"end":0,"threads":0,"profile":if cfg!(debug_assertions) {"dbg"} else {"rel"},
                    "consuming":false,"pnext":0,"revive":0,"dpanic":0,"cpanic":0,"tag":if sc["tag"].is_null() {serde_json::json!("")} else {sc["tag"].clone()},"aborted":true})
            )
            .unwrap();
            writeln!(
                out,
                "{}",
                serde_json::json!({"e":"Abort","run":run,"signal":sig,"code":code})
            )
            .unwrap();
            writeln!(
                out,
                "{}",
                serde_json::json!({"e":"End","run":run,"steps":0,"overlap":false,"sched":[]})
            )
            .unwrap();
            next = idx + 1;
            runs += 1;
            aborts += 1;
        } else if !status.success() {
            eprintln!("child failed without an open run: {status:?}");
            std::process::exit(2);
        } else {
            break;
        }
    }
    out.flush().unwrap();
    (runs, aborts)
}

fn main() {
    let args: Vec<String> = std::env::args().collect();
    match args.get(1).map(|s| s.as_str()) {
        Some("child") => {
            let from: usize = args[3].parse().unwrap();
            let to: usize = args[4].parse().unwrap();
            child(&args[2], from, to);
        }
        Some("run") => {
            let path = args[2].clone();
            let prefix = args[3].clone();
            let mut jobs = 8usize;
            let mut i = 4;
            while i < args.len() {
                if args[i] == "--jobs" {
                    jobs = args[i + 1].parse().unwrap();
                    i += 1;
                }
                i += 1;
            }
            let n = load(&path).len();
            let jobs = jobs.max(1).min(n.max(1));
            let per = n.div_ceil(jobs);
            let exe = std::env::current_exe().unwrap().to_string_lossy().to_string();
            let mut handles = vec![];
            for k in 0..jobs {
                let (a, b) = (k * per, ((k + 1) * per).min(n));
                if a >= b {
                    continue;
                }
                let exe = exe.clone();
                let path = path.clone();
                let outp = format!("{prefix}.{k}.ndjson");
                handles.push(std::thread::spawn(move || shard(&exe, &path, a, b, &outp)));
            }
            let mut runs = 0;
            let mut aborts = 0;
            for h in handles {
                let (r, a) = h.join().unwrap();
                runs += r;
                aborts += a;
            }
            println!("{{\"runs\":{runs},\"aborts\":{aborts},\"scenarios\":{n}}}");
        }
        _ => {
            eprintln!("usage: vh run <scenarios> <out-prefix> [--jobs J] | vh child <scenarios> <from> <to>");
            std::process::exit(2);
        }
    }
}
