//! Deterministic baton scheduler, the tracer installed into the crate's shim, and the trace sink.
use crate::alloc::Flag;
use orx_concurrent_iter::verif::{AtomTy, AtomicOp, OpKind, Tracer};
use rand::{rngs::StdRng, Rng, SeedableRng};
use serde_json::{json, Value};
use std::cell::RefCell;
use std::collections::HashMap;
use std::sync::atomic::Ordering;
use std::sync::{Arc, Condvar, Mutex};

/// Payload used to unwind abandoned workers (hang / frozen thread clean-up).
pub struct Poison;

#[derive(Debug, Clone, PartialEq)]
pub enum Pending {
    None,
    Call,
    Ret,
    Atomic { id: usize, load: bool },
    NextEnter,
    NextExit,
    Probe,
}

#[derive(Debug, Clone, Copy, PartialEq)]
pub enum WState {
    Running,
    Waiting,
    Done,
}

pub struct Inner {
    pub state: Vec<WState>,
    pub pending: Vec<Pending>,
    pub turn: usize,
    pub poisoned: bool,
    pub trace: Vec<String>,
    pub write_epoch: u64,
    pub loaded_at: Vec<HashMap<usize, u64>>,
    pub steps: Vec<usize>,
    pub total_steps: usize,
    pub overlap: bool,
    pub in_call: Vec<bool>,
    pub sched_taken: Vec<usize>,
    /// consecutive loads of the (unscheduled) owner thread without any write in between
    pub owner_loads: usize,
}

pub struct Run {
    pub inner: Mutex<Inner>,
    pub cv: Condvar,
    pub base_id: usize,
    pub src_base: std::sync::atomic::AtomicUsize,
    pub src_stride: std::sync::atomic::AtomicUsize,
    pub src_len: std::sync::atomic::AtomicUsize,
}

thread_local! {
    static CUR: RefCell<Option<(Arc<Run>, usize, bool)>> = const { RefCell::new(None) };
}

/// Registers the calling thread as participant `tid` of `run` (`scheduled`: stops at scheduling points).
pub fn enter(run: &Arc<Run>, tid: usize, scheduled: bool) {
    CUR.with(|c| *c.borrow_mut() = Some((run.clone(), tid, scheduled)));
}
pub fn leave() {
    CUR.with(|c| *c.borrow_mut() = None);
}
fn cur() -> Option<(Arc<Run>, usize, bool)> {
    CUR.try_with(|c| c.borrow().clone()).ok().flatten()
}
pub fn cur_tid() -> usize {
    cur().map(|c| c.1).unwrap_or(0)
}

/// Word encoding (all JSON numbers stay below 2^31 because TLC integers are 32-bit):
///   v < 2^30                      -> v
///   v = 2^64 - k, k <= 2^20       -> TOP - k        (usize::MAX -> TOP - 1)
///   v = 2^63 + d, |d| <= 2^20     -> MID + d
///   anything else                 -> OTHER
pub const TOP: i64 = 2_000_000_000;
pub const MID: i64 = 1_500_000_000;
pub const OTHER: i64 = 1_200_000_000;

pub fn w(v: usize) -> Value {
    if v < (1 << 30) {
        return json!(v);
    }
    let v = v as i128;
    let k = (1i128 << 64) - v;
    if k <= (1 << 20) {
        return json!(TOP - k as i64);
    }
    let d = v - (1i128 << 63);
    if d.abs() <= (1 << 20) {
        return json!(MID + d as i64);
    }
    json!(OTHER)
}

/// Decoding of the word encoding (scenario input).
pub fn unw(v: &Value) -> usize {
    let n = v.as_i64().expect("word");
    if n < (1 << 30) {
        n as usize
    } else if n > TOP - (1 << 21) {
        ((1i128 << 64) - (TOP - n) as i128) as usize
    } else if (n - MID).abs() <= (1 << 20) {
        ((1i128 << 63) + (n - MID) as i128) as usize
    } else {
        panic!("bad word {n}")
    }
}

impl Run {
    pub fn new(nthreads: usize) -> Arc<Run> {
        Arc::new(Run {
            inner: Mutex::new(Inner {
                state: vec![WState::Running; nthreads + 1],
                pending: vec![Pending::None; nthreads + 1],
                turn: 0,
                poisoned: false,
                trace: Vec::new(),
                write_epoch: 0,
                loaded_at: (0..=nthreads).map(|_| HashMap::new()).collect(),
                steps: vec![0; nthreads + 1],
                total_steps: 0,
                overlap: false,
                in_call: vec![false; nthreads + 1],
                sched_taken: Vec::new(),
                owner_loads: 0,
            }),
            cv: Condvar::new(),
            base_id: orx_concurrent_iter::verif::next_atomic_id(),
            src_base: 0.into(),
            src_stride: 1.into(),
            src_len: 0.into(),
        })
    }

    pub fn emit(&self, ev: Value) {
        let _g = Flag::off();
        let mut g = self.inner.lock().unwrap_or_else(|e| e.into_inner());
        if g.poisoned {
            return;
        }
        g.trace.push(ev.to_string());
    }

    pub fn take_trace(&self) -> Vec<String> {
        let mut g = self.inner.lock().unwrap_or_else(|e| e.into_inner());
        std::mem::take(&mut g.trace)
    }
}

/// Emits an event on the run of the calling thread (no-op outside a run).
pub fn emit(ev: Value) {
    let _g = Flag::off();
    if let Some((run, _, _)) = cur() {
        run.emit(ev);
    }
}

/// Scheduling point of a worker: publishes what it is about to do and waits for the baton.
pub fn yield_point(p: Pending) {
    let _g = Flag::off();
    let Some((run, tid, scheduled)) = cur() else {
        return;
    };
    if !scheduled {
        return;
    }
    let mut g = run.inner.lock().unwrap_or_else(|e| e.into_inner());
    if !matches!(p, Pending::Atomic { load: true, .. }) {
        g.loaded_at[tid].clear();
    }
    g.pending[tid] = p;
    g.state[tid] = WState::Waiting;
    g.turn = 0;
    run.cv.notify_all();
    while g.turn != tid && !g.poisoned {
        g = run.cv.wait(g).unwrap_or_else(|e| e.into_inner());
    }
    if g.poisoned {
        drop(g);
        std::panic::resume_unwind(Box::new(Poison));
    }
    g.state[tid] = WState::Running;
    g.steps[tid] += 1;
    g.total_steps += 1;
}

/// Marks the calling worker as finished.
pub fn done() {
    let _g = Flag::off();
    let Some((run, tid, scheduled)) = cur() else {
        return;
    };
    if !scheduled {
        return;
    }
    let mut g = run.inner.lock().unwrap_or_else(|e| e.into_inner());
    g.state[tid] = WState::Done;
    g.pending[tid] = Pending::None;
    if g.turn == tid {
        g.turn = 0;
    }
    run.cv.notify_all();
}

pub fn mark_call(start: bool) {
    if let Some((run, tid, _)) = cur() {
        let mut g = run.inner.lock().unwrap_or_else(|e| e.into_inner());
        g.in_call[tid] = start;
        if start && g.in_call.iter().filter(|x| **x).count() >= 2 {
            g.overlap = true;
        }
    }
}

pub struct Policy {
    pub sched: Vec<usize>,
    pub policy: String,
    pub seed: u64,
    pub freeze: Option<(usize, usize)>,
    pub max_steps: usize,
}

pub struct Outcome {
    pub hang: Vec<usize>,
    pub steps: usize,
    pub overlap: bool,
    pub sched_used: usize,
}

/// Controller: grants the baton until every (non-frozen) worker is done or nobody can move.
pub fn control(run: &Arc<Run>, nthreads: usize, pol: &Policy) -> Outcome {
    let mut rng = StdRng::seed_from_u64(pol.seed);
    let mut pos = 0usize;
    let mut last = 0usize;
    let mut g = run.inner.lock().unwrap_or_else(|e| e.into_inner());
    loop {
        while (1..=nthreads).any(|t| g.state[t] == WState::Running) {
            g = run.cv.wait(g).unwrap_or_else(|e| e.into_inner());
        }
        let frozen = |g: &Inner, t: usize| match pol.freeze {
            Some((ft, after)) => ft == t && g.steps[t] >= after,
            None => false,
        };
        let parked = |g: &Inner, t: usize| match &g.pending[t] {
            Pending::Atomic { id, load: true } => g.loaded_at[t].get(id) == Some(&g.write_epoch),
            _ => false,
        };
        let unfinished: Vec<usize> = (1..=nthreads)
            .filter(|&t| g.state[t] == WState::Waiting && !frozen(&g, t))
            .collect();
        if unfinished.is_empty() {
            let needs_poison = (1..=nthreads).any(|t| g.state[t] != WState::Done);
            let out = Outcome {
                hang: vec![],
                steps: g.total_steps,
                overlap: g.overlap,
                sched_used: pos,
            };
            if needs_poison {
                g.poisoned = true;
                run.cv.notify_all();
            }
            return out;
        }
        let eligible: Vec<usize> = unfinished
            .iter()
            .copied()
            .filter(|&t| !parked(&g, t))
            .collect();
        if eligible.is_empty() || g.total_steps >= pol.max_steps {
            let out = Outcome {
                hang: unfinished.clone(),
                steps: g.total_steps,
                overlap: g.overlap,
                sched_used: pos,
            };
            let ev = json!({"e":"Hang","threads":unfinished,"budget": g.total_steps >= pol.max_steps});
            g.trace.push(ev.to_string());
            g.poisoned = true;
            run.cv.notify_all();
            return out;
        }
        let mut pick = None;
        while pos < pol.sched.len() {
            let t = pol.sched[pos];
            pos += 1;
            if eligible.contains(&t) {
                pick = Some(t);
                break;
            }
        }
        let t = match pick {
            Some(t) => t,
            None => match pol.policy.as_str() {
                "rand" => eligible[rng.gen_range(0..eligible.len())],
                "sticky" => {
                    if eligible.contains(&last) && rng.gen_range(0..4) != 0 {
                        last
                    } else {
                        eligible[rng.gen_range(0..eligible.len())]
                    }
                }
                "rev" => *eligible.last().unwrap(),
                _ => eligible[0],
            },
        };
        last = t;
        g.sched_taken.push(t);
        g.turn = t;
        g.state[t] = WState::Running;
        run.cv.notify_all();
    }
}

fn ord_name(o: Ordering) -> &'static str {
    match o {
        Ordering::Relaxed => "Relaxed",
        Ordering::Release => "Release",
        Ordering::Acquire => "Acquire",
        Ordering::AcqRel => "AcqRel",
        Ordering::SeqCst => "SeqCst",
        _ => "Other",
    }
}

pub struct HarnessTracer;

impl Tracer for HarnessTracer {
    fn before(&self, op: &AtomicOp) {
        if let Some((run, _tid, scheduled)) = cur() {
            // a thread outside the scheduler (the owner, in the sequential phases) that keeps loading
            // without anybody writing waits for something that cannot happen any more: a hang
            let _g = Flag::off();
            let mut g = run.inner.lock().unwrap_or_else(|e| e.into_inner());
            let mut hang = g.trace.len() > 400_000;
            if !scheduled && !g.poisoned {
                if matches!(op.kind, OpKind::Load | OpKind::CasFail) {
                    g.owner_loads += 1;
                } else {
                    g.owner_loads = 0;
                }
                hang = hang || g.owner_loads > 3000;
            }
            if hang && !g.poisoned {
                let ev = json!({"e":"Hang","threads":[_tid],"budget": g.trace.len() > 400_000});
                g.trace.push(ev.to_string());
                g.poisoned = true;
                run.cv.notify_all();
                drop(g);
                std::panic::resume_unwind(Box::new(Poison));
            }
        }
        yield_point(Pending::Atomic {
            id: op.id,
            load: matches!(op.kind, OpKind::Load | OpKind::CasFail),
        });
    }

    fn after(&self, op: &AtomicOp, saw: usize) {
        let _g = Flag::off();
        let Some((run, tid, _)) = cur() else {
            return;
        };
        let kind = match op.kind {
            OpKind::Load => "ld",
            OpKind::Store => "st",
            OpKind::FetchAdd => "fa",
            OpKind::Rmw => "rmw",
            OpKind::CasFail => "ld",
        };
        let ty = match op.ty {
            AtomTy::Usize => "u",
            AtomTy::Bool => "b",
        };
        let ev = json!({"e":"A","t":tid,"loc":op.id.wrapping_sub(run.base_id),"ty":ty,"op":kind,
            "ord":ord_name(op.ord),"arg":w(op.arg),"saw":w(saw)});
        let mut g = run.inner.lock().unwrap_or_else(|e| e.into_inner());
        if g.poisoned {
            return;
        }
        match op.kind {
            OpKind::Load | OpKind::CasFail => {
                let ep = g.write_epoch;
                g.loaded_at[tid].insert(op.id, ep);
            }
            _ => {
                g.write_epoch += 1;
            }
        }
        g.trace.push(ev.to_string());
    }
}
