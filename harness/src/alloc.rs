//! Counting global allocator: a ledger of the bytes allocated while the calling thread is inside
//! the code under test (flag `COUNTING`), freed wherever.
use std::alloc::{GlobalAlloc, Layout, System};
use std::cell::Cell;
use std::sync::atomic::{AtomicBool, AtomicIsize, AtomicUsize, Ordering};

thread_local! {
    static COUNTING: Cell<bool> = const { Cell::new(false) };
}

const SLOTS: usize = 1 << 14;
const EMPTY: usize = 0;
const TOMB: usize = 1;

#[allow(clippy::declare_interior_mutable_const)]
const Z: AtomicUsize = AtomicUsize::new(0);
static PTRS: [AtomicUsize; SLOTS] = [Z; SLOTS];
static SIZES: [AtomicUsize; SLOTS] = [Z; SLOTS];
static LOCK: AtomicBool = AtomicBool::new(false);
static LIVE: AtomicIsize = AtomicIsize::new(0);
static ENTRIES: AtomicIsize = AtomicIsize::new(0);
static ALLOCS: AtomicUsize = AtomicUsize::new(0);

fn lock() {
    while LOCK
        .compare_exchange_weak(false, true, Ordering::Acquire, Ordering::Relaxed)
        .is_err()
    {
        std::hint::spin_loop();
    }
}
fn unlock() {
    LOCK.store(false, Ordering::Release);
}

fn slot_of(p: usize) -> usize {
    (p >> 3).wrapping_mul(0x9E37_79B9_7F4A_7C15usize) >> (usize::BITS as usize - 14)
}

fn record(p: usize, size: usize) {
    lock();
    let mut i = slot_of(p);
    for _ in 0..SLOTS {
        let cur = PTRS[i].load(Ordering::Relaxed);
        if cur == EMPTY || cur == TOMB {
            PTRS[i].store(p, Ordering::Relaxed);
            SIZES[i].store(size, Ordering::Relaxed);
            LIVE.fetch_add(size as isize, Ordering::Relaxed);
            ENTRIES.fetch_add(1, Ordering::Relaxed);
            ALLOCS.fetch_add(1, Ordering::Relaxed);
            break;
        }
        i = (i + 1) & (SLOTS - 1);
    }
    unlock();
}

fn forget(p: usize) {
    if ENTRIES.load(Ordering::Relaxed) == 0 {
        return;
    }
    lock();
    let mut i = slot_of(p);
    for _ in 0..SLOTS {
        let cur = PTRS[i].load(Ordering::Relaxed);
        if cur == EMPTY {
            break;
        }
        if cur == p {
            PTRS[i].store(TOMB, Ordering::Relaxed);
            let size = SIZES[i].load(Ordering::Relaxed);
            LIVE.fetch_sub(size as isize, Ordering::Relaxed);
            ENTRIES.fetch_sub(1, Ordering::Relaxed);
            break;
        }
        i = (i + 1) & (SLOTS - 1);
    }
    unlock();
}

pub struct Counting;

unsafe impl GlobalAlloc for Counting {
    unsafe fn alloc(&self, layout: Layout) -> *mut u8 {
        let p = System.alloc(layout);
        if !p.is_null() && COUNTING.try_with(|c| c.get()).unwrap_or(false) {
            record(p as usize, layout.size());
        }
        p
    }
    unsafe fn dealloc(&self, ptr: *mut u8, layout: Layout) {
        forget(ptr as usize);
        System.dealloc(ptr, layout)
    }
    unsafe fn realloc(&self, ptr: *mut u8, layout: Layout, new_size: usize) -> *mut u8 {
        forget(ptr as usize);
        let p = System.realloc(ptr, layout, new_size);
        if !p.is_null() && COUNTING.try_with(|c| c.get()).unwrap_or(false) {
            record(p as usize, new_size);
        }
        p
    }
}

/// Bytes currently live in the ledger.
pub fn live() -> isize {
    LIVE.load(Ordering::SeqCst)
}

/// Number of counted allocations so far.
pub fn allocs() -> usize {
    ALLOCS.load(Ordering::SeqCst)
}

/// Clears the ledger (start of a run).
pub fn reset() {
    lock();
    for i in 0..SLOTS {
        if PTRS[i].load(Ordering::Relaxed) != EMPTY {
            PTRS[i].store(EMPTY, Ordering::Relaxed);
        }
    }
    LIVE.store(0, Ordering::Relaxed);
    ENTRIES.store(0, Ordering::Relaxed);
    unlock();
}

/// Runs `f` with the ledger switched on for this thread.
pub fn counted<R>(f: impl FnOnce() -> R) -> R {
    let _g = Flag::set(true);
    f()
}

/// Guard switching the ledger flag of this thread, restoring the previous value when dropped.
pub struct Flag(bool);
impl Flag {
    pub fn set(v: bool) -> Self {
        let prev = COUNTING.with(|c| c.replace(v));
        Flag(prev)
    }
    pub fn off() -> Self {
        Self::set(false)
    }
}
impl Drop for Flag {
    fn drop(&mut self) {
        let prev = self.0;
        let _ = COUNTING.try_with(|c| c.set(prev));
    }
}
