//! Scenario (input) format.
use serde::Deserialize;
use serde_json::Value;

#[derive(Deserialize, Clone, Debug, Default)]
pub struct Step {
    pub op: String,
    #[serde(default)]
    pub it: usize,
    /// chunk size / argument (word encoding)
    #[serde(default)]
    pub n: Option<Value>,
    /// number of items to consume (chunk, values, into_seq); absent = all
    #[serde(default)]
    pub take: Option<usize>,
    /// closure / clone panics at its k-th invocation within this op (0 = never)
    #[serde(default)]
    pub panic_at: usize,
    /// the panicking closure holds a guard whose destructor pulls from the iterator while unwinding
    #[serde(default)]
    pub unwind: bool,
}

#[derive(Deserialize, Clone, Debug, Default)]
pub struct Scenario {
    pub id: u64,
    pub kind: String,
    #[serde(default)]
    pub hint: String,
    #[serde(default)]
    pub len: usize,
    #[serde(default)]
    pub start: Option<Value>,
    #[serde(default)]
    pub end: Option<Value>,
    #[serde(default)]
    pub pre: Vec<Step>,
    #[serde(default)]
    pub threads: Vec<Vec<Step>>,
    #[serde(default)]
    pub post: Vec<Step>,
    #[serde(default)]
    pub sched: Vec<usize>,
    #[serde(default)]
    pub policy: String,
    #[serde(default)]
    pub seed: u64,
    #[serde(default)]
    pub freeze: Option<(usize, usize)>,
    #[serde(default)]
    pub panic_next: usize,
    /// non-fused wrapped iterator: items yielded after its first `None` (kind "iter" only)
    #[serde(default)]
    pub revive: usize,
    /// id of the element whose destructor panics (0 = none)
    #[serde(default)]
    pub drop_panic: u32,
    /// the k-th clone of an element in the run panics (0 = never)
    #[serde(default)]
    pub clone_panic: usize,
    #[serde(default)]
    pub tag: Value,
}
