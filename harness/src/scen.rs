//! Scenario (input) format.
use serde::Deserialize;
use serde_json::Value;

#[derive(Deserialize, Clone, Debug, Default)]
pub struct Step {
    pub op: String,
    #[serde(default)]
    pub it: usize,
    /// chunk size / argument (word encoding)
    #[serde(default)]
    pub n: Option<Value>,
    /// number of items to consume (chunk, values, into_seq); absent = all
    #[serde(default)]
    pub take: Option<usize>,
    /// closure / clone panics at its k-th invocation within this op (0 = never)
    #[serde(default)]
    pub panic_at: usize,
    /// the panicking closure holds a guard whose destructor pulls from the iterator while unwinding
    #[serde(default)]
    pub unwind: bool,
    /// how the items of a chunk are taken out of its iterator: bits 0-1: 0 next, 1 nth(0), 2 take(1).fold, 3 find;
    /// bit 2: the rest of a partly consumed chunk is discarded through the iterator, too (1 nth(MAX), 2 count(),
    /// 3 last(), 0 nothing) instead of just dropping the chunk
    #[serde(default)]
    pub via: u8,
}

#[derive(Deserialize, Clone, Debug, Default)]
pub struct Scenario {
    pub id: u64,
    pub kind: String,
    #[serde(default)]
    pub hint: String,
    #[serde(default)]
    pub len: usize,
    #[serde(default)]
    pub start: Option<Value>,
    #[serde(default)]
    pub end: Option<Value>,
    #[serde(default)]
    pub pre: Vec<Step>,
    #[serde(default)]
    pub threads: Vec<Vec<Step>>,
    #[serde(default)]
    pub post: Vec<Step>,
    #[serde(default)]
    pub sched: Vec<usize>,
    #[serde(default)]
    pub policy: String,
    #[serde(default)]
    pub seed: u64,
    #[serde(default)]
    pub freeze: Option<(usize, usize)>,
    #[serde(default)]
    pub panic_next: usize,
    /// non-fused wrapped iterator: items yielded after its first `None` (kind "iter" only)
    #[serde(default)]
    pub revive: usize,
    /// id of the element whose destructor panics (0 = none)
    #[serde(default)]
    pub drop_panic: u32,
    /// the k-th clone of an element in the run panics (0 = never)
    #[serde(default)]
    pub clone_panic: usize,
    #[serde(default)]
    pub tag: Value,
}
