SPECIFICATION TSpec
CONSTANTS
  NT = 0
  SrcLen = 0
  Start = 0
  Kind = "slice"
  MaxOps = 0
  OwnerOps = 0
  Sizes = {1}
  TakeSet = {9}
  OpKinds = {}
  MOD = 1048576
  Mutant = ""
CONSTRAINT Publish
POSTCONDITION Accepted
CHECK_DEADLOCK FALSE
