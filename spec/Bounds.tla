------------------------------- MODULE Bounds -------------------------------
(***************************************************************************)
(* C14, static clauses: a small capability model of what a SAFE client        *)
(* program may do with the crate's types, used to derive - exhaustively for  *)
(* a finite family of minimal programs - which programs the compiler must    *)
(* reject because they would move or share a value that is not thread-safe   *)
(* across threads, or keep a delivered reference / chunk alive longer than    *)
(* its source or buffer.  TLC enumerates the family and prints one row per   *)
(* program with the verdict of this model; the rows are rendered as Rust     *)
(* programs and given to rustc together with the current crate (lib/probes). *)
(*                                                                         *)
(* Part 1 (threads).  A program = <<kind, element caps, wrapped-iterator     *)
(* caps, use>>.  With use "share" (&it used on a scoped thread) or "move"    *)
(* (it moved into a thread) another thread                                   *)
(*   - obtains &T        for the reference-yielding kinds   => needs T: Sync *)
(*   - obtains T by value for the consuming kinds           => needs T: Send *)
(*   - executes the wrapped iterator's next()  (kind iter)  => needs I: Send *)
(* The state machine performs these accesses and records them; Sound says    *)
(* that no access is made from a thread the value may not be used on.         *)
(*                                                                         *)
(* Part 2 (borrows).  A program is a sequence of statements over the         *)
(* variables col, it, r, c, b, k1, k2; a statement that ends the life of a   *)
(* lender (drop, move by into_seq_iter, a second `&mut` use of the buffered  *)
(* iterator) invalidates everything that transitively borrows from it; using *)
(* an invalidated variable is the error the compiler must report.  A use     *)
(* statement moves its variable; variables with drop glue (chunks, buffered  *)
(* iterator) are implicitly used at the end of the scope.                    *)
(***************************************************************************)
EXTENDS Integers, Sequences, FiniteSets, TLC, Json

CONSTANTS Part,        \* "threads" | "borrows"
          MaxStmts

RefKinds == {"slice", "vecref", "arrref", "cloned_slice"}
ValKinds == {"vec", "array", "range"}
IterKinds == {"iter"}
\* a client-defined implementor of the public trait AtomicIter (caps = prog.iter) wrapped by cloned()/copied():
\* the adaptor is shared with / moved to the other thread, which then calls into the client's object
UserKinds == {"user_cloned", "user_copied"}
Kinds == RefKinds \cup ValKinds \cup IterKinds \cup UserKinds
Caps == {[send |-> s, sync |-> y] : s \in BOOLEAN, y \in BOOLEAN}
Uses == {"local", "share", "move"}
Full == [send |-> TRUE, sync |-> TRUE]

VARIABLES prog, pc, acc, env, invalid, bad
vars == <<prog, pc, acc, env, invalid, bad>>

(***************************************************************************)
(* Part 1                                                                   *)
(***************************************************************************)
TInit ==
  /\ prog \in {[kind |-> k, elem |-> e, iter |-> i, use |-> u] :
                 k \in Kinds, e \in Caps, i \in Caps, u \in Uses}
  /\ (prog.kind \notin IterKinds \cup UserKinds => prog.iter = Full)      \* no wrapped object: one representative
  /\ (prog.kind \in UserKinds => prog.elem = Full)
  /\ (prog.kind = "range" => prog.elem = Full)             \* ranges yield integers
  /\ pc = "start" /\ acc = {} /\ env = {} /\ invalid = {} /\ bad = FALSE

\* accesses <<what, mode, thread>> performed when the iterator is used on thread th
Pulls(th) ==
  (IF prog.kind \in RefKinds THEN {<<"elem", "ref", th>>} ELSE {<<"elem", "own", th>>})
  \cup (IF prog.kind \in IterKinds THEN {<<"iter", "own", th>>} ELSE {})
  \cup (IF prog.kind \in UserKinds THEN {<<"iter", IF prog.use = "move" THEN "own" ELSE "ref", th>>} ELSE {})

TNext ==
  \/ /\ pc = "start"
     /\ acc' = Pulls("main")                       \* the owner may always pull itself
     /\ pc' = IF prog.use = "local" THEN "done" ELSE "spawned"
     /\ UNCHANGED <<prog, env, invalid, bad>>
  \/ /\ pc = "spawned"
     /\ acc' = acc \cup Pulls("worker")
     /\ pc' = "done"
     /\ UNCHANGED <<prog, env, invalid, bad>>

\* a value created on main: by reference on another thread needs Sync, by value needs Send
AccessOk(a) ==
  LET caps == IF a[1] = "elem" THEN prog.elem ELSE prog.iter IN
  a[3] = "main" \/ (IF a[2] = "ref" THEN caps.sync ELSE caps.send)
Sound == \A a \in acc : AccessOk(a)

TEmit == pc = "done" =>
  PrintT(<<"ROW", ToJson([part |-> "threads", kind |-> prog.kind, elem |-> prog.elem, iter |-> prog.iter,
                          use |-> prog.use, reject |-> ~Sound,
                          accept |-> (prog.elem = Full /\ prog.iter = Full)])>>)

(***************************************************************************)
(* Part 2                                                                   *)
(***************************************************************************)
BKinds == {"vecref", "vec", "iter"}
Stmts == {"mkit", "pull", "chunk", "bnew", "bnext1", "bnext2", "dropcol", "dropit", "dropb",
          "user", "usec", "usek1", "usek2", "intoseq"}
UseStmts == {"user", "usec", "usek1", "usek2"}

\* x borrows from y (kind dependent)
Lenders(k, x) ==
  CASE x = "it" -> IF k = "vecref" THEN {"col"} ELSE {}
    [] x = "r"  -> IF k = "vecref" THEN {"col"} ELSE {}       \* &'a T is tied to the collection, not to `it`
    [] x = "c"  -> {"it"}
    [] x = "b"  -> {"it"}
    [] x = "k1" -> {"b"}
    [] x = "k2" -> {"b"}
    [] OTHER -> {}

RECURSIVE Borrowers(_, _, _)
\* everything in e that transitively borrows from x
Borrowers(k, x, e) ==
  LET direct == {y \in e : x \in Lenders(k, y)} IN
  direct \cup UNION {Borrowers(k, y, e \ direct) : y \in direct}

Defines(s) == CASE s = "mkit" -> "it" [] s = "pull" -> "r" [] s = "chunk" -> "c" [] s = "bnew" -> "b"
                [] s = "bnext1" -> "k1" [] s = "bnext2" -> "k2" [] OTHER -> ""
Needs(s) == CASE s = "mkit" -> {"col"} [] s \in {"pull", "chunk", "bnew", "dropit", "intoseq"} -> {"it"}
              [] s \in {"bnext1", "bnext2", "dropb"} -> {"b"} [] s = "dropcol" -> {"col"}
              [] s = "user" -> {"r"} [] s = "usec" -> {"c"} [] s = "usek1" -> {"k1"} [] s = "usek2" -> {"k2"}
              [] OTHER -> {}
\* variables whose life ends / whose exclusive borrow is renewed by s
Kills(k, s) == CASE s = "dropcol" -> {"col"} [] s \in {"dropit", "intoseq"} -> {"it"} [] s = "dropb" -> {"b"}
                 [] s = "mkit" -> IF k = "vecref" THEN {} ELSE {"col"}      \* consuming constructors move col
                 [] OTHER -> {}
Reborrows(s) == IF s \in {"bnext1", "bnext2"} THEN {"k1", "k2"} ELSE {}     \* &mut b: earlier chunks die
\* moved or dropped: cannot be named any more (a use statement moves its variable)
Gone(k, s) == Kills(k, s) \cup (IF s \in UseStmts THEN Needs(s) ELSE {})
\* opaque `impl Trait` chunk iterators may have a destructor that touches what they borrow, so the end
\* of the scope is a use of them; the buffered iterator is a plain struct without Drop and is not
Droppy == {"c", "k1", "k2"}

BInit ==
  /\ prog \in {[kind |-> k, stmts |-> << >>] : k \in BKinds}
  /\ pc = "run" /\ acc = {} /\ env = {"col"} /\ invalid = {} /\ bad = FALSE

BNext ==
  /\ pc = "run" /\ Len(prog.stmts) < MaxStmts
  /\ \E s \in Stmts :
       LET k == prog.kind
           d == Defines(s) IN
       /\ Needs(s) \subseteq env                       \* well-formed: only names that are in scope
       /\ d # "" => d \notin env                       \* each variable is defined once
       /\ prog' = [prog EXCEPT !.stmts = Append(@, s)]
       /\ bad' = (bad \/ Needs(s) \cap invalid # {})   \* use of something whose lender is gone
       /\ LET killed == Kills(k, s)
              dead == UNION {Borrowers(k, x, env) : x \in killed}
              stale == (Reborrows(s) \cap env) IN
          /\ invalid' = (invalid \cup dead \cup stale \cup UNION {Borrowers(k, y, env) : y \in stale}) \ {d}
          /\ env' = ((env \ Gone(k, s)) \cup (IF d = "" THEN {} ELSE {d}))
  /\ UNCHANGED <<pc, acc>>

BEmit == (prog.stmts # << >> /\ prog.stmts[Len(prog.stmts)] \in UseStmts) =>
  LET rej == bad \/ (env \cap Droppy \cap invalid # {}) IN
  PrintT(<<"ROW", ToJson([part |-> "borrows", kind |-> prog.kind, stmts |-> prog.stmts, reject |-> rej,
                          accept |-> ~rej])>>)

Init == IF Part = "threads" THEN TInit ELSE BInit
Next == IF Part = "threads" THEN TNext ELSE BNext
Spec == Init /\ [][Next]_vars
Emit == IF Part = "threads" THEN TEmit ELSE BEmit
=============================================================================
