SPECIFICATION Spec
CONSTANTS
  NT = 2
  SrcLen = 2
  Start = 0
  IsRange = FALSE
  Consuming = FALSE
  MaxOps = 1
  Sizes = {1, 2, 3}
  OpKinds = {"next", "nextid", "chunk", "foreach", "eforeach", "fold", "values", "idsvalues", "skip", "len", "hasmore"}
  MOD = 64
  Mutant = ""
INVARIANTS
  GenEmit
CHECK_DEADLOCK FALSE
