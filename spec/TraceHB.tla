------------------------------ MODULE TraceHB ------------------------------
(***************************************************************************)
(* Trace validation of C07 (no data race on the cell holding the wrapped     *)
(* iterator; every use happens-after the previous one): the release/acquire  *)
(* rules of module HB are applied to the memory ordering LOGGED with every   *)
(* atomic operation of the real run.  The spec knows nothing about the       *)
(* ticket protocol: it only needs the atomic events (location, kind,         *)
(* ordering), the entries of the wrapped next() and the fork/join structure  *)
(* of the run (owner thread 0 before and after the workers).                 *)
(***************************************************************************)
EXTENDS HB, Sequences, Json, IOUtils

Rec == ndJsonDeserialize(IOEnv.TRACE)
N == Len(Rec)

VARIABLES l, run, hb, inNext, viol, cnt
vars == <<l, run, hb, inNext, viol, cnt>>

E == Rec[l]
IsEvent(name) == l <= N /\ E.e = name

Adv(h2) == /\ l' = l + 1
           /\ hb' = h2
           /\ viol' = viol \cup (IF h2.race THEN {<<run, "Race">>} ELSE {})
           /\ UNCHANGED run

TReset ==
  /\ IsEvent("Reset")
  /\ l' = l + 1 /\ run' = E.run
  /\ hb' = HbInit(E.threads, {})
  /\ inNext' = {}
  /\ cnt' = [cnt EXCEPT ![1] = @ + 1]
  /\ UNCHANGED viol

TAtomic ==
  /\ IsEvent("A")
  /\ CASE E.op = "ld" -> Adv(HbLoad(hb, E.t, E.loc, E.ord))
       [] E.op = "st" -> Adv(HbStore(hb, E.t, E.loc, E.ord))
       [] OTHER       -> Adv(HbRmw(hb, E.t, E.loc, E.ord))
  /\ cnt' = [cnt EXCEPT ![2] = @ + 1]
  /\ UNCHANGED inNext

TNextEnter ==
  /\ IsEvent("NextEnter")
  /\ LET h2 == HbAccess(hb, E.t) IN
     /\ l' = l + 1 /\ hb' = h2
     /\ viol' = viol \cup (IF h2.race THEN {<<run, "Race">>} ELSE {})
                     \cup (IF inNext # {} THEN {<<run, "Mutex">>} ELSE {})
  /\ inNext' = inNext \cup {E.t}
  /\ cnt' = [cnt EXCEPT ![3] = @ + 1]
  /\ UNCHANGED run

TNextExit ==
  /\ IsEvent("NextExit")
  /\ inNext' = inNext \ {E.t}
  /\ l' = l + 1
  /\ UNCHANGED <<run, hb, viol, cnt>>

\* size_hint of the wrapped iterator is an access of the cell like next()
THintRead ==
  /\ IsEvent("HintRead")
  /\ LET h2 == HbAccess(hb, E.t) IN
     /\ l' = l + 1 /\ hb' = h2
     /\ viol' = viol \cup (IF h2.race THEN {<<run, "Race">>} ELSE {})
                     \cup (IF inNext \ {E.t} # {} THEN {<<run, "Mutex">>} ELSE {})
  /\ UNCHANGED <<run, inNext, cnt>>

\* calls of the owner are program-ordered with the workers' whole lives (spawn / join)
TCall ==
  /\ IsEvent("Call")
  /\ Adv(HbPhase(hb, E.t))
  /\ UNCHANGED <<inNext, cnt>>

TOther ==
  /\ l <= N
  /\ E.e \in {"Ret", "Visit", "Mem", "SrcCheck", "DropElem", "CloneElem", "Partial", "End", "Hang", "Abort"}
  /\ l' = l + 1
  /\ UNCHANGED <<run, hb, inNext, viol, cnt>>

Init == /\ l = 1 /\ run = -1 /\ hb = HbInit(0, {}) /\ inNext = {} /\ viol = {} /\ cnt = <<0, 0, 0>>
Next == TReset \/ TAtomic \/ TNextEnter \/ TNextExit \/ THintRead \/ TCall \/ TOther
Spec == Init /\ [][Next]_vars

Publish == TLCSet(1, viol) /\ TLCSet(2, l) /\ TLCSet(3, cnt)
Accepted ==
  LET consumed == TLCGet(2) - 1 IN
  /\ PrintT(<<"VIOL", ToJson(TLCGet(1))>>)
  /\ PrintT(<<"MATCHED", ToJson(TLCGet(3))>>)
  /\ PrintT(<<"CONSUMED", consumed, N>>)
  /\ IF consumed = N THEN TRUE
     ELSE PrintT(<<"UNMATCHED", consumed + 1, ToJson(Rec[consumed + 1])>>) /\ FALSE
=============================================================================
