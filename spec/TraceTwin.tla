------------------------------ MODULE TraceTwin ------------------------------
(***************************************************************************)
(* Lock-step comparison of two recorded batches of runs of the real crate    *)
(* which executed the SAME scenarios (programs, schedules, seeds):           *)
(*   mode "dual": the crate built with debug assertions + overflow checks    *)
(*                (A) and without (B)                       -> C17           *)
(*   mode "twin": a cloned()/copied() adaptor (A) and the underlying         *)
(*                reference-yielding iterator (B)           -> C13           *)
(* Both batches are, separately, validated against TraceProps etc.; this     *)
(* spec states the relational part of the property: run by run, the          *)
(* projections of the two event sequences are equal.  In "twin" mode the     *)
(* projection keeps every call, atomic step, visit and result (indices,      *)
(* chunk boundaries, remaining lengths, end and skip behaviour, remainder    *)
(* of into_seq_iter) and hides what legitimately differs: addresses of the   *)
(* delivered references, clone events and the allocator ledger.              *)
(* A run that differs is recorded as <<run, "Differs", lineA, lineB>> and    *)
(* both sides are re-synchronised at their next Reset.                       *)
(***************************************************************************)
EXTENDS Integers, Sequences, FiniteSets, Json, IOUtils, TLC

RecA == ndJsonDeserialize(IOEnv.TRACE)
RecB == ndJsonDeserialize(IOEnv.TRACE2)
Mode == IOEnv.TWINMODE
NA == Len(RecA)
NB == Len(RecB)

VARIABLES l, k, mode, run, viol, cnt
vars == <<l, k, mode, run, viol, cnt>>

Without(r, fs) == [f \in DOMAIN r \ fs |-> r[f]]
Hidden(e) == Mode = "twin" /\ e.e \in {"CloneElem", "Mem", "DropElem"}

Proj(e) ==
  CASE e.e = "Reset" -> IF Mode = "dual" THEN Without(e, {"profile"})
                        ELSE [e |-> "Reset", run |-> e.run, len |-> e.len, threads |-> e.threads, hint |-> e.hint]
    [] e.e = "Ret"   -> IF Mode = "dual" THEN e
                        ELSE [e EXCEPT !.res = Without(@, {"pidx"})]
    [] e.e = "Visit" -> IF Mode = "dual" THEN e ELSE Without(e, {"pidx"})
    [] OTHER -> e

AtA == IF l <= NA THEN RecA[l] ELSE [e |-> "EOF"]
AtB == IF k <= NB THEN RecB[k] ELSE [e |-> "EOF"]

Compare ==
  /\ mode = "cmp"
  /\ l <= NA \/ k <= NB
  /\ IF l <= NA /\ Hidden(AtA) THEN l' = l + 1 /\ UNCHANGED <<k, mode, run, viol, cnt>>
     ELSE IF k <= NB /\ Hidden(AtB) THEN k' = k + 1 /\ UNCHANGED <<l, mode, run, viol, cnt>>
     ELSE IF Proj(AtA) = Proj(AtB)
       THEN /\ l' = l + 1 /\ k' = k + 1
            /\ run' = IF AtA.e = "Reset" THEN AtA.run ELSE run
            /\ cnt' = IF AtA.e = "End" THEN cnt + 1 ELSE cnt
            /\ UNCHANGED <<mode, viol>>
       ELSE /\ viol' = viol \cup {<<IF AtA.e = "Reset" THEN AtA.run ELSE run, "Differs", l, k>>}
            /\ mode' = "skipA"
            /\ l' = IF AtA.e = "Reset" THEN l + 1 ELSE l
            /\ k' = IF AtB.e = "Reset" THEN k + 1 ELSE k
            /\ UNCHANGED <<run, cnt>>

SkipA ==
  /\ mode = "skipA"
  /\ IF l > NA \/ AtA.e = "Reset" THEN mode' = "skipB" /\ UNCHANGED l ELSE l' = l + 1 /\ UNCHANGED mode
  /\ UNCHANGED <<k, run, viol, cnt>>

SkipB ==
  /\ mode = "skipB"
  /\ IF k > NB \/ AtB.e = "Reset" THEN mode' = "cmp" /\ UNCHANGED k ELSE k' = k + 1 /\ UNCHANGED mode
  /\ UNCHANGED <<l, run, viol, cnt>>

Init == l = 1 /\ k = 1 /\ mode = "cmp" /\ run = -1 /\ viol = {} /\ cnt = 0
Next == Compare \/ SkipA \/ SkipB
Spec == Init /\ [][Next]_vars

Publish == TLCSet(1, viol) /\ TLCSet(2, l) /\ TLCSet(3, k) /\ TLCSet(4, cnt)
Accepted ==
  /\ PrintT(<<"VIOL", ToJson(TLCGet(1))>>)
  /\ PrintT(<<"MATCHED", ToJson(<<TLCGet(4), 0, 0>>)>>)
  /\ PrintT(<<"CONSUMED", (TLCGet(2) - 1) + (TLCGet(3) - 1), NA + NB>>)
  /\ TLCGet(2) - 1 = NA /\ TLCGet(3) - 1 = NB
=============================================================================
