----------------------------- MODULE TraceProps -----------------------------
(***************************************************************************)
(* Trace validation, property level (engine E2): consumes a batch of        *)
(* recorded executions of the real crate (ndjson, one event per line; runs   *)
(* separated by Reset events) and drives the monitors of module Props with   *)
(* them.  One state per trace line, one successor per state.                 *)
(*                                                                         *)
(* Atomic-level events ("A") are stuttering steps here; they are matched     *)
(* against the implementation-level models by TraceCounter / TraceTicket    *)
(* and against the happens-before rules by TraceHB.                          *)
(*                                                                         *)
(* Violations do not stop the batch: the flags of every run are accumulated  *)
(* in `viol` as <<run, flag>> pairs and reported by the postcondition.       *)
(***************************************************************************)
EXTENDS Props, Json, IOUtils, TLC

Rec == ndJsonDeserialize(IOEnv.TRACE)
N == Len(Rec)

VARIABLES l,      \* next line to consume
          mon,    \* monitors, one per iterator of the run (clones get their own)
          run,    \* id of the current run
          viol,   \* set of <<run, flag>>
          seen    \* number of events of each kind consumed (coverage of the trace spec)

vars == <<l, mon, run, viol, seen>>

RangeKinds == {"range", "rangeref"}
CloneKinds == {"cloned_slice", "cloned_iter"}

CfgOf(e) ==
  [ len       |-> e.len,
    base      |-> IF e.kind \in RangeKinds THEN (IF IsInt(e.start) THEN e.start ELSE -1) ELSE 100,
    fam       |-> e.fam,
    hint      |-> e.hint,
    consuming |-> e.consuming,
    clones    |-> e.kind \in CloneKinds,
    nthreads  |-> e.threads,
    extra     |-> IF "revive" \in DOMAIN e THEN e.revive ELSE 0,
    faults    |-> e.pnext + e.dpanic + e.cpanic,      \* a fault other than a panicking user closure is armed
    kind      |-> e.kind ]

E == Rec[l]
IsEvent(name) == l <= N /\ E.e = name
It == IF "it" \in DOMAIN E /\ E.it \in DOMAIN mon THEN E.it ELSE 0

Collect(r, ms) == viol \cup {<<r, f>> : f \in UNION {ms[i].flags : i \in DOMAIN ms}}
Count(k) == seen' = [seen EXCEPT ![k] = @ + 1]

Advance(ms) ==
  /\ l' = l + 1
  /\ mon' = ms
  /\ viol' = Collect(run, ms)
  /\ UNCHANGED run

Upd(i, m) == [mon EXCEPT ![i] = m]

TReset ==
  /\ IsEvent("Reset")
  /\ l' = l + 1
  /\ run' = E.run
  /\ mon' = (0 :> MonInit(CfgOf(E)))
  /\ viol' = viol
  /\ Count("Reset")

WordOrInt(x) == x   \* words that do not fit are records; Props treats non-integers as out of range

TCall ==
  /\ IsEvent("Call")
  /\ IF E.op = "clone" \/ It \notin DOMAIN mon THEN Advance(mon)
     ELSE Advance(Upd(It, MCall(mon[It], E.t, E.op, E.n)))
  /\ Count("Call")

TRet ==
  /\ IsEvent("Ret")
  /\ IF E.res.k = "cloned"
       THEN Advance((E.res.new :> mon[It]) @@ mon)
     ELSE IF E.res.k \in {"noiter", "nobuf", "badop"} THEN Advance(mon)
     ELSE Advance(Upd(It, MRet(mon[It], E.t, E.res)))
  /\ Count("Ret")

TVisit ==
  /\ IsEvent("Visit")
  /\ LET act == {j \in DOMAIN mon : mon[j].op[E.t] # ""}      \* the iterator whose composite op is in flight on this thread
         i == IF act = {} THEN 0 ELSE CHOOSE j \in act : TRUE IN
     Advance(Upd(i, MVisitU(mon[i], E.t, IF IsInt(E.idx) THEN E.idx ELSE -9, E.val, E.pidx, "unwind" \in DOMAIN E)))
  /\ Count("Visit")

TAtomic ==
  /\ IsEvent("A")
  /\ Advance(mon)
  /\ Count("A")

TNextEnter ==
  /\ IsEvent("NextEnter")
  /\ Advance(Upd(It, MNextEnter(mon[It], E.t)))
  /\ Count("NextEnter")

TNextExit ==
  /\ IsEvent("NextExit")
  /\ Advance(Upd(It, MNextExit(mon[It], E.t)))
  /\ Count("NextExit")

THintRead ==
  /\ IsEvent("HintRead")
  /\ Advance(Upd(It, MHintRead(mon[It], E.t, E.busy)))
  /\ UNCHANGED seen

TDropElem ==
  /\ IsEvent("DropElem")
  /\ Advance(Upd(0, MDropElem(mon[0], E.id, E.ok)))
  /\ Count("DropElem")

TCloneElem ==
  /\ IsEvent("CloneElem")
  /\ Advance(Upd(0, MCloneElem(mon[0], E.id)))
  /\ Count("CloneElem")

TPartial ==
  /\ IsEvent("Partial")
  /\ LET act == {j \in DOMAIN mon : mon[j].op[E.t] # ""}
         i == IF act = {} THEN 0 ELSE CHOOSE j \in act : TRUE IN
     Advance(Upd(i, MPartial(mon[i], E.vals)))
  /\ UNCHANGED seen

TSrcCheck ==
  /\ IsEvent("SrcCheck")
  /\ Advance(Upd(0, MSrcCheck(mon[0], E.ok)))
  /\ Count("SrcCheck")

TMem ==
  /\ IsEvent("Mem")
  /\ Advance(Upd(0, MMem(mon[0], E.at, E.live)))
  /\ Count("Mem")

THang ==
  /\ IsEvent("Hang")
  /\ Advance(Upd(0, MHang(mon[0])))
  /\ Count("Hang")

TAbort ==
  /\ IsEvent("Abort")
  /\ Advance(Upd(0, MAbort(mon[0])))
  /\ Count("Abort")

TEnd ==
  /\ IsEvent("End")
  /\ Advance(Upd(0, MEnd(mon[0], mon[0].memEnd # -1)))
  /\ Count("End")

Init ==
  /\ l = 1
  /\ run = -1
  /\ mon = (0 :> MonInit([len |-> 0, base |-> 0, fam |-> "counter", hint |-> "exact",
                          consuming |-> FALSE, clones |-> FALSE, nthreads |-> 0, extra |-> 0, faults |-> 0, kind |-> ""]))
  /\ viol = {}
  /\ seen = [k \in {"Reset", "Call", "Ret", "Visit", "A", "NextEnter", "NextExit", "DropElem",
                    "CloneElem", "SrcCheck", "Mem", "Hang", "Abort", "End"} |-> 0]

Next ==
  \/ TReset \/ TCall \/ TRet \/ TVisit \/ TAtomic \/ TNextEnter \/ TNextExit
  \/ THintRead \/ TDropElem \/ TCloneElem \/ TPartial \/ TSrcCheck \/ TMem \/ THang \/ TAbort \/ TEnd

Spec == Init /\ [][Next]_vars

(***************************************************************************)
(* Acceptance and report.  The state constraint publishes the running        *)
(* result in TLC registers (single worker), the postcondition prints them.   *)
(***************************************************************************)
Publish == TLCSet(1, viol) /\ TLCSet(2, l) /\ TLCSet(3, seen)

Accepted ==
  LET consumed == TLCGet(2) - 1 IN
  /\ PrintT(<<"VIOL", ToJson(TLCGet(1))>>)
  /\ PrintT(<<"SEEN", ToJson(TLCGet(3))>>)
  /\ PrintT(<<"CONSUMED", consumed, N>>)
  /\ IF consumed = N THEN TRUE
     ELSE PrintT(<<"UNMATCHED", consumed + 1, ToJson(Rec[consumed + 1])>>) /\ FALSE
=============================================================================
