---------------------------- MODULE TraceBoundary ----------------------------
(***************************************************************************)
(* C16, validation: every recorded call of a sequential script executed on   *)
(* the real crate (any kind, any build profile) must return what the ideal   *)
(* cursor of module Boundary returns in unbounded integer arithmetic.        *)
(* A mismatch is recorded as <<run, "Boundary", line>>; the rest of that run *)
(* is skipped because the real state is then unknown.                        *)
(***************************************************************************)
EXTENDS Boundary, IOUtils

Rec == ndJsonDeserialize(IOEnv.TRACE)
NL == Len(Rec)

VARIABLES l, run, ign, cur, viol, cnt
tvars == <<l, run, ign, cur, viol, cnt>>
allv == <<st, h, tvars>>

E == Rec[l]
IsEvent(name) == l <= NL /\ E.e = name
RangeKinds == {"range", "rangeref"}

StateOfRun(e) ==
  IF e.kind \in RangeKinds
    THEN LET s == OfLog(e.start)
             en == OfLog(e.end) IN
         [base |-> s, len |-> LenOfBounds(s, en), pos |-> Zero, buf |-> Zero, done |-> FALSE, start |-> s, end |-> en, skipped |-> FALSE, skipFrom |-> Zero, ctr |-> Zero, endSeen |-> FALSE, req |-> Zero]
    ELSE [base |-> N(0, 100), len |-> N(0, e.len), pos |-> Zero, buf |-> Zero, done |-> FALSE, start |-> Zero, end |-> N(0, e.len), skipped |-> FALSE, skipFrom |-> Zero, ctr |-> Zero, endSeen |-> FALSE, req |-> Zero]

MapLog(s) == [j \in 1..Len(s) |-> OfLog(s[j])]

SameB(x, r) ==
  CASE x.k = "none" -> r.k = "none"
    [] x.k = "item" -> r.k = "item" /\ OfLog(r.val) = x.val /\ (x.idx = N(0, -1) \/ OfLog(r.idx) = x.idx)
    [] x.k = "chunk" -> /\ r.k = "chunk" /\ OfLog(r.b) = x.b /\ OfLog(r.alen) = x.alen
                        /\ MapLog(r.vals) = x.vals /\ MapLog(r.lens) = x.lens /\ r.endnone = x.endnone
    [] x.k = "panic" -> r.k = "panic"
    [] x.k = "len" -> r.k = "len" /\ r.some /\ OfLog(r.v) = x.v
    [] x.k = "hasmore" -> r.k = "hasmore" /\ (IF x.v = Zero THEN r.a = "no" ELSE r.a = "yes" /\ OfLog(r.v) = x.v)
    [] x.k = "seq" -> r.k = "seq" /\ MapLog(r.vals) = x.vals /\ r.full = x.full
    [] OTHER -> r.k = x.k

\* a pull that delivers something, or a length query that reports elements
Delivers(r) == \/ r.k \in {"item", "chunk"}
               \/ (r.k = "len" /\ r.some /\ OfLog(r.v) # Zero)
               \/ (r.k = "hasmore" /\ r.a = "yes")

Adv == l' = l + 1
Keep == UNCHANGED <<st, h, run, ign, cur, viol, cnt>>

TReset ==
  /\ IsEvent("Reset")
  /\ Adv /\ run' = E.run
  /\ ign' = ("aborted" \in DOMAIN E)
  /\ st' = StateOfRun(E)
  /\ cur' = [k |-> "", n |-> Zero, take |-> -1]
  /\ cnt' = [cnt EXCEPT ![1] = @ + 1]
  /\ UNCHANGED <<h, viol>>

TCall ==
  /\ IsEvent("Call") /\ ~ign
  /\ Adv
  /\ cur' = [k |-> E.op, n |-> OfLog(E.n), take |-> E.take]
  /\ UNCHANGED <<st, h, run, ign, viol, cnt>>

\* after skip_to_end the remainder may be any (possibly empty) suffix of the elements that were undelivered
\* when the skip happened (C10): consecutive values, none before the skip position, ending at the last element
SeqAfterSkipOK(r) ==
  LET vs == MapLog(r.vals)
      k == Len(vs) IN
  /\ r.k = "seq"
  /\ \A j \in 1..(k - 1) : vs[j + 1] = Add(vs[j], N(0, 1))
  /\ k > 0 => /\ Le(ValueAt(st, st.skipFrom), vs[1])
              /\ Lt(vs[k], ValueAt(st, st.len))
              /\ (r.full => vs[k] = ValueAt(st, Sub(st.len, N(0, 1))))

TRet ==
  /\ IsEvent("Ret") /\ ~ign
  /\ Adv
  /\ IF cur.k \in {"drop", "bdrop"} THEN UNCHANGED <<st, ign, viol, cnt>>
     ELSE LET x == Expected(st, cur) IN
          IF SameB(x[1], E.res) \/ (cur.k = "intoseq" /\ st.skipped /\ SeqAfterSkipOK(E.res))
            THEN /\ st' = [x[2] EXCEPT !.ctr = Ctr(st, cur), !.req = Add(@, Requested(st, cur)),
                                        !.endSeen = @ \/ (IsPull(cur) /\ x[1].k = "none")]
                 /\ cnt' = [cnt EXCEPT ![2] = @ + 1] /\ UNCHANGED <<ign, viol>>
            ELSE /\ viol' = viol \cup {<<run, IF Wrapped(st) THEN "BoundaryAfterWrap" ELSE "Boundary", l>>}
                                 \* the same mismatch read as C06 / C05: a pull that started after skip_to_end had returned /
                                 \* after an end report delivers, or a length query is positive again (outside the
                                 \* wrapped-counter regime of finding G2, and for C05 within its precondition on requests)
                                 \cup (IF st.skipped /\ ~Wrapped(st) /\ Fits(Ctr(st, cur)) /\ Delivers(E.res)
                                        THEN {<<run, "SkipSticksB", l>>} ELSE {})
                                 \* ... as C03: what came back is a chunk, but not of the announced / required length;
                                 \* as C02: an item or a chunk of the right length whose index or values are wrong
                                 \cup (IF ~Wrapped(st) /\ Fits(Ctr(st, cur)) /\ E.res.k = "chunk"
                                          /\ (x[1].k # "chunk" \/ OfLog(E.res.alen) # x[1].alen \/ MapLog(E.res.lens) # x[1].lens)
                                        THEN {<<run, "ChunkB", l>>} ELSE {})
                                 \cup (IF ~Wrapped(st) /\ Fits(Ctr(st, cur)) /\ E.res.k = x[1].k
                                          /\ \/ (E.res.k = "chunk"
                                                 /\ \/ OfLog(E.res.b) # x[1].b
                                                    \/ \E j \in 1..Len(E.res.vals) : j <= Len(x[1].vals) /\ OfLog(E.res.vals[j]) # x[1].vals[j])
                                             \/ (E.res.k = "item" /\ (OfLog(E.res.val) # x[1].val
                                                                      \/ (x[1].idx # N(0, -1) /\ OfLog(E.res.idx) # x[1].idx)))
                                        THEN {<<run, "IndexB", l>>} ELSE {})
                                 \cup (IF st.endSeen /\ ~Wrapped(st) /\ Fits(Add(st.req, Requested(st, cur))) /\ Delivers(E.res)
                                        THEN {<<run, "EndSticksB", l>>} ELSE {})
                 /\ ign' = TRUE
                 /\ UNCHANGED <<st, cnt>>
  /\ UNCHANGED <<h, run, cur>>

TBad ==
  /\ l <= NL /\ E.e \in {"Hang", "Abort"}
  /\ Adv
  /\ viol' = viol \cup {<<run, "Boundary", l>>}
  /\ ign' = TRUE
  /\ UNCHANGED <<st, h, run, cur, cnt>>

TOther ==
  /\ l <= NL
  /\ \/ E.e \in {"A", "Visit", "Mem", "SrcCheck", "DropElem", "CloneElem", "Partial", "End", "NextEnter", "NextExit", "HintRead"}
     \/ (ign /\ E.e \in {"Call", "Ret"})
  /\ Adv /\ Keep

TInit == /\ l = 1 /\ run = -1 /\ ign = TRUE /\ viol = {} /\ cnt = <<0, 0>>
         /\ cur = [k |-> "", n |-> Zero, take |-> -1]
         /\ st = [base |-> Zero, len |-> Zero, pos |-> Zero, buf |-> Zero, done |-> FALSE, start |-> Zero, end |-> Zero, skipped |-> FALSE, skipFrom |-> Zero, ctr |-> Zero, endSeen |-> FALSE, req |-> Zero]
         /\ h = << >>
TNext == TReset \/ TCall \/ TRet \/ TBad \/ TOther
TSpec == TInit /\ [][TNext]_allv

Publish == TLCSet(1, viol) /\ TLCSet(2, l) /\ TLCSet(3, cnt)
Accepted ==
  LET consumed == TLCGet(2) - 1 IN
  /\ PrintT(<<"VIOL", ToJson(TLCGet(1))>>)
  /\ PrintT(<<"MATCHED", ToJson(<<TLCGet(3)[1], TLCGet(3)[2], 0>>)>>)
  /\ PrintT(<<"CONSUMED", consumed, NL>>)
  /\ IF consumed = NL THEN TRUE
     ELSE PrintT(<<"UNMATCHED", consumed + 1, ToJson(Rec[consumed + 1])>>) /\ FALSE
=============================================================================
