------------------------------- MODULE Props -------------------------------
(***************************************************************************)
(* The properties C01..C19 of orx-concurrent-iter as predicates over a      *)
(* monitor record `m` that is updated ONLY from API-level events            *)
(* (call / visit / return of public operations) and probe events            *)
(* (wrapped-iterator enter/exit, element clone/drop, allocator ledger).     *)
(* No implementation variable is read.  The same operators are used          *)
(*   - by the implementation-level models (Counter, Ticket, Own, ...) whose  *)
(*     Call/Ret actions feed model-computed results (engine E1), and         *)
(*   - by the trace specifications (TraceProps) which feed the events        *)
(*     recorded from the real crate (engine E2).                            *)
(*                                                                         *)
(* All operators are pure: m' = MCall(m, ...), MRet(m, ...), ...            *)
(* A violated predicate adds its name to m.flags (sticky); the invariant    *)
(* for predicate X is  X \notin m.flags.                                    *)
(***************************************************************************)
EXTENDS Integers, Sequences, FiniteSets

Max2(a, b) == IF a >= b THEN a ELSE b
Min2(a, b) == IF a <= b THEN a ELSE b
\* words are logged as integers; values of 10^9 and above encode words near 2^63 / 2^64
IsInt(x) == x < 1000000000

PullOps  == {"next", "nextid", "chunk", "bnext", "fetchn", "get"}
CompOps  == {"foreach", "eforeach", "fold", "values", "idsvalues"}
LoopOps  == {"foreach", "eforeach", "fold"}            \* run until they observe the end
QueryOps == {"len", "hasmore"}
BIG == 1000000

(***************************************************************************)
(* Initial monitor.  cfg: [len, base, fam, hint, consuming, nthreads,       *)
(* clones (cloned adaptor), extra (late elements of a non-fused source)]    *)
(* Source element at position p has value base + p.                         *)
(***************************************************************************)
MonInit(cfg) ==
  LET T == 0..cfg.nthreads
      P == 0..(cfg.len - 1) IN
  [ cfg       |-> cfg,
    flags     |-> {},
    deliv     |-> [p \in P |-> 0],        \* deliveries per position (saturating at 2)
    moves     |-> [p \in P |-> 0],        \* element handed to a caller (consuming kinds)
    drops     |-> [p \in P |-> 0],        \* element destroyed by the machinery
    clones    |-> [p \in P |-> 0],
    hiRet     |-> 0,                      \* 1 + highest position delivered by a returned pull
    inflight  |-> 0,                      \* delivering calls between call and return
    inflightQ |-> 0,                      \* every call between call and return
    endRet    |-> FALSE,                  \* some pull has reported the end
    endSingle |-> FALSE,                  \* ... a single or one-shot chunk pull
    skipCalled|-> FALSE,
    skipRet   |-> FALSE,
    noRet     |-> FALSE,                  \* a length query has answered 0 / No
    minLen    |-> BIG,                    \* smallest length answered so far
    panicSeen |-> FALSE,
    lowLevel  |-> FALSE,                  \* a low-level public call was used (C14 scenarios)
    inNext    |-> {},                     \* threads inside the wrapped iterator's next()
    op        |-> [t \in T |-> ""],       \* operation in flight
    n         |-> [t \in T |-> 0],        \* its chunk size
    floor     |-> [t \in T |-> 0],
    lastIdx   |-> [t \in T |-> -1],
    afterEnd  |-> [t \in T |-> FALSE],
    afterSkip |-> [t \in T |-> FALSE],
    afterNo   |-> [t \in T |-> FALSE],
    lenHi     |-> [t \in T |-> BIG],
    qClean    |-> [t \in T |-> FALSE],    \* query started at a quiescent point, nothing happened since
    pulled    |-> [t \in T |-> FALSE],
    sawEnd    |-> [t \in T |-> FALSE],
    cur       |-> [t \in T |-> << >>],    \* values visited by the composite op in flight
    lastCl    |-> [t \in T |-> -1],      \* last position visited by the closure of t's composite op in flight
    lostOK    |-> {},                     \* positions a panicking closure's own chunk may legitimately lose
    memEnd    |-> -1,
    done      |-> FALSE ]

AddFlags(m, S) == [m EXCEPT !.flags = @ \cup S]
Known(m) == m.cfg.fam = "counter" \/ m.cfg.hint = "exact"

\* cfg.extra > 0: a non-fused wrapped iterator that yields `extra` further elements after its first None;
\* they get the positions len, len+1, ... (never legitimately delivered once the end has been reported)
PosOf(m, v) == IF IsInt(v) /\ v >= m.cfg.base /\ v < m.cfg.base + m.cfg.len + m.cfg.extra
               THEN v - m.cfg.base ELSE -1

Delivered(m) == {p \in DOMAIN m.deliv : m.deliv[p] >= 1}
IsPrefixSet(m) == \A p \in DOMAIN m.deliv : m.deliv[p] >= 1 => \A q \in 0..p : m.deliv[q] >= 1
AllOnce(m) == \A p \in DOMAIN m.deliv : m.deliv[p] = 1
AllObservedEnd(m) == (\E t \in DOMAIN m.pulled : m.pulled[t])
                     /\ \A t \in DOMAIN m.pulled : m.pulled[t] => m.sawEnd[t]
Remaining(m) == Cardinality({p \in DOMAIN m.deliv : m.deliv[p] = 0})

(***************************************************************************)
(* Quiescent predicates, evaluated after every return that leaves no        *)
(* delivering call in flight.                                               *)
(***************************************************************************)
\* Only user closures panicked (no fault armed in the wrapped iterator, a clone or a destructor): an end report
\* is then still truthful - every position has been delivered, dropped by the unwinding call, or belongs to the
\* part of the panicking call's own chunk that it had not visited yet.
ClosurePanicsOnly(m) == m.cfg.faults = 0
QuiescePanic(m) ==
  IF m.inflight = 0 /\ ~m.skipCalled /\ m.endRet /\ ClosurePanicsOnly(m)
     /\ \E p \in DOMAIN m.deliv : m.deliv[p] = 0 /\ m.drops[p] = 0 /\ p \notin m.lostOK
  THEN AddFlags(m, {"NoFalseEnd_panic"}) ELSE m

Quiesce(m) ==
  IF m.lowLevel THEN m
  ELSE IF m.panicSeen THEN QuiescePanic(m)
  ELSE IF m.inflight # 0 THEN m
  ELSE AddFlags(m,
         (IF ~m.skipCalled /\ ~IsPrefixSet(m) THEN {"Prefix"} ELSE {})
    \cup (IF ~m.skipCalled /\ m.endRet /\ ~AllOnce(m) THEN {"NoFalseEnd"} ELSE {})
    \cup (IF ~m.skipCalled /\ AllObservedEnd(m) /\ ~AllOnce(m) THEN {"NoLoss"} ELSE {}))

(***************************************************************************)
(* Delivery of the positions ps (a set of ints >= 0) to thread t "now".     *)
(* via = "ret" (a pull returned them) or the name of a composite op.        *)
(***************************************************************************)
Deliver(m, t, ps, via) ==
  IF ps = {} THEN m ELSE
  LET lo == CHOOSE p \in ps : \A q \in ps : p <= q
      hi == CHOOSE p \in ps : \A q \in ps : p >= q
      inr == {p \in ps : p < m.cfg.len}
      fe == via \in LoopOps
      f1 == IF \E p \in inr : m.deliv[p] >= 1
            THEN {"NoDup"} \cup (IF fe THEN {"NoDup_fe"} ELSE {}) ELSE {}
      f2 == IF lo < m.floor[t] THEN {"RealTime"} ELSE {}
      f3 == IF lo <= m.lastIdx[t] THEN {"ThreadOrder"} ELSE {}
      f4 == IF m.afterEnd[t] THEN {"EndSticks"} ELSE {}
      f5 == IF m.afterSkip[t] THEN {"SkipSticks"} ELSE {}
      f6 == IF m.afterNo[t] THEN {"NoDefinitive"} ELSE {}
      f7 == IF inr # ps THEN {"OutOfRange"} ELSE {}
  IN [ AddFlags(m, f1 \cup f2 \cup f3 \cup f4 \cup f5 \cup f6 \cup f7) EXCEPT
         !.deliv = [p \in DOMAIN @ |-> IF p \in inr THEN Min2(2, @[p] + 1) ELSE @[p]],
         !.lastIdx[t] = hi,
         !.hiRet = Max2(@, hi + 1),
         !.qClean = [u \in DOMAIN @ |-> FALSE] ]

\* The caller took ownership of the elements at positions ps (consuming kinds).
Move(m, ps) ==
  LET inr == {p \in ps : p >= 0 /\ p < m.cfg.len} IN
  [ AddFlags(m, IF m.cfg.consuming /\ \E p \in inr : m.moves[p] + m.drops[p] >= 1 THEN {"OwnTwice"} ELSE {}) EXCEPT
      !.moves = [p \in DOMAIN @ |-> IF p \in inr THEN Min2(2, @[p] + 1) ELSE @[p]] ]

(***************************************************************************)
(* Call events                                                              *)
(***************************************************************************)
MCall(m, t, op, n) ==
  LET m1 == [m EXCEPT !.op[t] = op, !.n[t] = n, !.cur[t] = << >>, !.lastCl[t] = -1,
                      !.inflightQ = @ + 1]
  IN CASE op \in PullOps \cup CompOps ->
            [m1 EXCEPT !.floor[t] = m.hiRet,
                       !.afterEnd[t] = m.endRet,
                       !.afterSkip[t] = m.skipRet,
                       !.afterNo[t] = m.noRet,
                       !.pulled[t] = TRUE,
                       !.sawEnd[t] = FALSE,
                       !.inflight = @ + 1,
                       !.lowLevel = @ \/ op \in {"get"}]
       [] op \in QueryOps ->
            [m1 EXCEPT !.lenHi[t] = m.minLen,
                       !.qClean[t] = (m.inflightQ = 0),
                       !.afterEnd[t] = m.endRet,
                       !.afterSkip[t] = m.skipRet]
       [] op = "skip" ->
            [m1 EXCEPT !.skipCalled = TRUE, !.qClean = [u \in DOMAIN @ |-> FALSE]]
       [] op \in {"pagbi", "cstore"} ->
            [m1 EXCEPT !.lowLevel = TRUE]
       [] op = "cloneuse" ->          \* a clone taken while others pull: remember what had been handed out before
            [m1 EXCEPT !.floor[t] = m.hiRet]
       [] OTHER -> m1

(***************************************************************************)
(* Visit: one element handed to the closure / loop body of a composite op.  *)
(* idx = -1 when the operation reports no index.                            *)
(***************************************************************************)
\* unwind = TRUE: the element was pulled by a guard of the caller while its closure's panic unwinds
MVisitU(m, t, idx, val, pidx, unwind) ==
  LET p  == PosOf(m, val)
      op == m.op[t]
      fe == op \in LoopOps
      f1 == IF p < 0 THEN {"Value"} ELSE {}
      f2 == IF idx # -1 /\ idx # p THEN {"Index"} \cup (IF fe THEN {"Index_fe"} ELSE {}) ELSE {}
      f3 == IF pidx # -1 /\ pidx # p THEN {"RefIdentity"} ELSE {}
      m1 == AddFlags(m, f1 \cup f2 \cup f3)
      m2 == IF p >= 0 THEN Deliver(m1, t, {p}, op) ELSE m1
      m3 == IF p >= 0 THEN Move(m2, {p}) ELSE m2
  IN [m3 EXCEPT !.cur[t] = Append(@, val), !.lastCl[t] = IF unwind THEN @ ELSE p]

MVisit(m, t, idx, val, pidx) == MVisitU(m, t, idx, val, pidx, FALSE)

(***************************************************************************)
(* Return events.  res is a record with field k:                            *)
(*  "none" | "item"(idx,val,pidx) | "chunk"(b,alen,vals,pidx,lens,endnone)   *)
(*  "len"(some,v) | "hasmore"(a,v) | "unit" | "fold"(vals) | "seq"(vals,full)*)
(*  "panic"(msg) | "idx"(some,v) | "cloned" | ...                           *)
(***************************************************************************)
Range(s) == {s[i] : i \in DOMAIN s}

ChunkFlags(m, t, res) ==
  LET n == m.n[t]
      b == res.b
      a == res.alen
      k == Len(res.vals)
      small == IsInt(b) /\ IsInt(a) /\ IsInt(n)
  IN IF ~small THEN {"ChunkShape"}
     ELSE (IF a < 1 THEN {"ChunkEmpty"} ELSE {})
     \cup (IF a > n THEN {"ChunkTooLong"} ELSE {})
     \cup (IF b + a > m.cfg.len THEN {"OutOfRange"} ELSE {})
     \cup (IF a < n /\ b + a # m.cfg.len /\ ~m.panicSeen THEN {"ChunkShort"} ELSE {})
     \cup (IF \E j \in 1..Len(res.lens) : res.lens[j] # a - (j - 1) THEN {"ChunkLen"} ELSE {})
     \cup (IF k > a THEN {"ChunkLen"} ELSE {})
     \cup (IF res.endnone /\ k # a THEN {"ChunkLen"} ELSE {})
     \* the caller discarded the rest through count() / nth / last: as many items as announced were left
     \cup (IF "rest" \in DOMAIN res /\ res.rest # -1 /\ res.rest # a - k THEN {"ChunkLen"} ELSE {})
     \* ... and if it took them out with fold, they are the announced positions after those taken one by one
     \cup (IF "restvals" \in DOMAIN res /\ \E j \in 1..Len(res.restvals) : PosOf(m, res.restvals[j]) # b + k + (j - 1)
             THEN {"Index"} ELSE {})
     \cup (IF \E j \in 1..k : PosOf(m, res.vals[j]) # b + (j - 1) THEN {"Index"} ELSE {})
     \cup (IF \E j \in 1..k : PosOf(m, res.vals[j]) < 0 THEN {"Value"} ELSE {})
     \cup (IF \E j \in 1..k : res.pidx[j] # -1 /\ res.pidx[j] # b + (j - 1) THEN {"RefIdentity"} ELSE {})

ExpectedLen(m) == IF m.skipRet \/ m.skipCalled THEN 0 ELSE Remaining(m)

\* flags of a length answer v (an Int, or -1 for "unknown") at the return of a query by t
QueryFlags(m, t, v, isHasMore, maybe) ==
  LET quiet == m.qClean[t] /\ m.inflightQ = 1 /\ ~m.panicSeen /\ ~m.lowLevel
  IN (IF v # -1 /\ v > m.lenHi[t] THEN {"LenIncreased"} ELSE {})
  \cup (IF v > 0 /\ m.afterEnd[t] THEN {"LenAfterEnd"} ELSE {})
  \cup (IF m.afterSkip[t] /\ v # 0 THEN {"LenAfterSkip"} ELSE {})
  \cup (IF quiet /\ Known(m) /\ v # ExpectedLen(m) THEN {"LenWrong"} ELSE {})
  \cup (IF quiet /\ ~Known(m) /\ v > 0 THEN {"LenWrong"} ELSE {})
  \cup (IF quiet /\ m.endSingle /\ v # 0 THEN {"NotNoAfterEnd"} ELSE {})
  \cup (IF isHasMore /\ maybe /\ Known(m) THEN {"MaybeOnKnown"} ELSE {})

SeqFlags(m, res) ==
  LET ps  == [j \in 1..Len(res.vals) |-> PosOf(m, res.vals[j])]
      und == {p \in DOMAIN m.deliv : m.deliv[p] = 0}
      k   == Len(res.vals)
  IN IF m.panicSeen \/ m.lowLevel THEN {}
     \* delivered elements and remainder together are the source: nothing was delivered twice or from outside of it
     ELSE IF m.flags \cap {"NoDup", "OutOfRange"} # {} THEN {"SeqWrong"}
     ELSE IF \E j \in 1..k : ps[j] < 0 THEN {"SeqWrong"}
     ELSE IF ~m.skipCalled
       THEN LET pre == Cardinality(Delivered(m)) IN
            (IF \E j \in 1..k : ps[j] # pre + (j - 1) THEN {"SeqWrong"} ELSE {})
            \cup (IF res.full /\ pre + k # m.cfg.len THEN {"SeqWrong"} ELSE {})
       ELSE (IF \E j \in 1..k : ps[j] \notin und THEN {"SeqWrong"} ELSE {})
            \cup (IF \E j \in 1..(k-1) : ps[j] >= ps[j+1] THEN {"SeqWrong"} ELSE {})
            \cup (IF res.full /\ k > 0 /\ \E p \in und : p > ps[1] /\ p \notin Range(ps)
                  THEN {"SeqWrong"} ELSE {})

ExpectedPanic(m, t, res) ==
  \/ /\ m.op[t] \in {"bnew", "foreach", "eforeach", "fold"}
     /\ m.n[t] = 0
  \/ res.probe

MRet(m, t, res) ==
  LET op == m.op[t]
      pull == op \in PullOps \cup CompOps
      m0 == [m EXCEPT !.op[t] = "", !.inflightQ = @ - 1,
                      !.inflight = IF pull THEN @ - 1 ELSE @]
  IN
  CASE res.k = "none" /\ op \in {"chunk", "fetchn"} /\ m.n[t] = 0 ->
         Quiesce(m0)       \* a one-shot pull of size zero delivers nothing and says nothing about the end
    [] res.k = "none" ->
         Quiesce([m0 EXCEPT !.endRet = TRUE,
                            !.endSingle = @ \/ op \in {"next", "nextid", "chunk", "fetchn"},
                            !.sawEnd[t] = TRUE,
                            !.qClean = [u \in DOMAIN @ |-> FALSE]])
    [] res.k = "item" ->
         LET p  == PosOf(m, res.val)
             f1 == IF p < 0 THEN {"Value"} ELSE {}
             f2 == IF res.idx # -1 /\ res.idx # p THEN {"Index"} ELSE {}
             f3 == IF res.pidx # -1 /\ res.pidx # p THEN {"RefIdentity"} ELSE {}
             m1 == AddFlags(m0, f1 \cup f2 \cup f3)
             m2 == IF p >= 0 THEN Deliver(m1, t, {p}, "ret") ELSE m1
             m3 == IF p >= 0 THEN Move(m2, {p}) ELSE m2
         IN Quiesce(m3)
    [] res.k = "chunk" ->
         LET fl == ChunkFlags(m, t, res)
             ok == IsInt(res.b) /\ IsInt(res.alen) /\ res.b >= 0 /\ res.alen >= 0 /\ res.alen < BIG
             mv == {PosOf(m, res.vals[j]) : j \in 1..Len(res.vals)} \ {-1}
             \* delivered: the announced positions and whatever the chunk actually yielded
             ps == (IF ok THEN {res.b + j : j \in 0..(res.alen - 1)} ELSE {}) \cup mv
             m1 == AddFlags(m0, fl)
             m2 == Deliver(m1, t, ps, "ret")
             m3 == Move(m2, mv)
         IN Quiesce(m3)
    [] res.k = "len" ->
         LET v == IF res.some THEN (IF IsInt(res.v) THEN res.v ELSE BIG) ELSE -1
             m1 == AddFlags(m0, QueryFlags(m, t, v, FALSE, FALSE))
         IN [m1 EXCEPT !.noRet = @ \/ v = 0,
                       !.minLen = IF v >= 0 THEN Min2(@, v) ELSE @]
    [] res.k = "hasmore" ->
         LET v == IF res.a = "yes" THEN (IF IsInt(res.v) THEN res.v ELSE BIG)
                  ELSE IF res.a = "no" THEN 0 ELSE -1
             f0 == IF res.a = "yes" /\ v = 0 THEN {"YesZero"} ELSE {}
             m1 == AddFlags(m0, f0 \cup QueryFlags(m, t, v, TRUE, res.a = "maybe"))
         IN [m1 EXCEPT !.noRet = @ \/ v = 0,
                       !.minLen = IF v >= 0 THEN Min2(@, v) ELSE @]
    [] res.k = "unit" ->
         IF op = "skip" THEN [m0 EXCEPT !.skipRet = TRUE, !.qClean = [u \in DOMAIN @ |-> FALSE]]
         ELSE IF op \in LoopOps
           THEN Quiesce([m0 EXCEPT !.endRet = TRUE, !.sawEnd[t] = TRUE])
         ELSE IF op \in CompOps THEN Quiesce(m0)
         ELSE m0
    [] res.k = "fold" ->
         LET f == IF res.vals # m.cur[t] THEN {"FoldResult"} ELSE {} IN
         Quiesce(AddFlags([m0 EXCEPT !.endRet = TRUE, !.sawEnd[t] = TRUE], f))
    [] res.k = "seq" ->
         LET mv == {PosOf(m, res.vals[j]) : j \in 1..Len(res.vals)} \cap DOMAIN m.deliv
             m1 == AddFlags(m0, SeqFlags(m, res))
             m2 == [m1 EXCEPT !.deliv = [p \in DOMAIN @ |-> IF p \in mv THEN Min2(2, @[p] + 1) ELSE @[p]]]
             m3 == AddFlags(m2, IF \E p \in mv : m.deliv[p] >= 1 THEN {"NoDup"} ELSE {})
         IN Move(m3, mv)
    [] res.k = "cloneseq" ->
         \* the clone was drained: it starts at the original's position at some moment of the clone call, hence not
         \* before anything that a returned pull had delivered when the call started, and it runs to the end
         LET ps == [j \in 1..Len(res.vals) |-> PosOf(m, res.vals[j])]
             k == Len(ps)
             f == IF \E j \in 1..k : ps[j] < 0 THEN {"CloneStart"}
                  ELSE IF \E j \in 1..(k - 1) : ps[j + 1] # ps[j] + 1 THEN {"CloneStart"}
                  ELSE IF k > 0 /\ ps[1] < m.floor[t] THEN {"CloneStart"}
                  ELSE IF k > 0 /\ ps[k] # m.cfg.len - 1 THEN {"CloneStart"}
                  ELSE {}
         IN AddFlags(m0, f)
    [] res.k = "panic" ->
         LET f == IF ExpectedPanic(m, t, res) THEN {} ELSE {"Panic"}
             win == IF op \in LoopOps /\ m.n[t] > 1 /\ m.lastCl[t] >= 0
                    THEN {m.lastCl[t] + j : j \in 1..(m.n[t] - 1)} ELSE {} IN
         AddFlags([m0 EXCEPT !.panicSeen = (@ \/ pull), !.lostOK = @ \cup win], f)
    [] OTHER -> m0

(***************************************************************************)
(* Probe events                                                             *)
(***************************************************************************)
MNextEnter(m, t) ==
  [ AddFlags(m, IF m.inNext # {} THEN {"Mutex"} ELSE {}) EXCEPT !.inNext = @ \cup {t} ]
MNextExit(m, t) == [m EXCEPT !.inNext = @ \ {t}]
\* size_hint of the wrapped iterator: an access, too (the iterator need not be Sync)
MHintRead(m, t, busy) == AddFlags(m, IF busy \/ m.inNext \ {t} # {} THEN {"Mutex"} ELSE {})

MDropElem(m, id, ok) ==
  LET p == PosOf(m, id)
      f0 == IF ~ok THEN {"OwnGarbage"} ELSE {}
  IN IF p < 0 THEN AddFlags(m, f0 \cup {"OwnGarbage"})
     ELSE IF p >= m.cfg.len THEN AddFlags(m, f0)        \* a late element of a non-fused source
     ELSE IF ~m.cfg.consuming
       THEN AddFlags(m, f0 \cup (IF m.cfg.clones THEN {} ELSE {"SrcDropped"}))
     ELSE [ AddFlags(m, f0 \cup IF m.moves[p] + m.drops[p] >= 1 THEN {"OwnTwice"} ELSE {}) EXCEPT
              !.drops[p] = Min2(2, @ + 1) ]

MCloneElem(m, id) ==
  LET p == PosOf(m, id) IN
  IF p < 0 THEN AddFlags(m, {"Value"})
  ELSE IF p >= m.cfg.len THEN m
  ELSE [m EXCEPT !.clones[p] = Min2(3, @ + 1)]

\* a call that ended in a panic had already handed these values to its caller
MPartial(m, vals) == Move(m, {PosOf(m, vals[j]) : j \in 1..Len(vals)} \ {-1})

MSrcCheck(m, ok) == AddFlags(m, IF ok THEN {} ELSE {"SrcModified"})
MMem(m, at, live) == IF at = "end" THEN AddFlags([m EXCEPT !.memEnd = live],
                                                 IF live # 0 THEN {"Leak"} ELSE {}) ELSE m
MHang(m) == AddFlags([m EXCEPT !.done = TRUE], {"Hang"})
MAbort(m) == AddFlags([m EXCEPT !.done = TRUE], {"Abort"})

\* end of a run in which everything obtained from the iterator has been dropped
MEnd(m, complete) ==
  IF ~complete \/ m.done THEN [m EXCEPT !.done = TRUE]
  ELSE LET f1 == IF m.cfg.consuming /\ ~m.lowLevel /\ \E p \in DOMAIN m.moves : m.moves[p] + m.drops[p] = 0
                 THEN {"OwnNever"} ELSE {}
           f2 == IF m.cfg.clones /\ ~m.panicSeen /\ \E p \in DOMAIN m.clones : m.clones[p] # m.moves[p]
                 THEN {"CloneCount"} ELSE {}
       IN AddFlags([m EXCEPT !.done = TRUE], f1 \cup f2)

(***************************************************************************)
(* Which flags belong to which property                                     *)
(***************************************************************************)
FlagsOf(c) ==
  CASE c = "C01" -> {"NoDup", "NoLoss"}
    [] c = "C02" -> {"Index", "Value"}
    [] c = "C03" -> {"ChunkEmpty", "ChunkTooLong", "ChunkShort", "ChunkLen", "ChunkShape", "OutOfRange"}
    [] c = "C04" -> {"Prefix", "NoFalseEnd", "RealTime", "ThreadOrder"}
    [] c = "C05" -> {"EndSticks", "LenAfterEnd"}
    [] c = "C06" -> {"SkipSticks", "LenAfterSkip"}
    [] c = "C07" -> {"Mutex", "Race"}
    [] c = "C08" -> {"OwnTwice", "OwnNever", "OwnGarbage"}
    [] c = "C09" -> {"Hang"}
    [] c = "C10" -> {"SeqWrong"}
    [] c = "C11" -> {"LenIncreased", "LenWrong", "NotNoAfterEnd", "MaybeOnKnown", "NoDefinitive", "YesZero"}
    [] c = "C12" -> {"NoDup_fe", "Index_fe", "FoldResult", "NoFalseEnd_panic"}
    [] c = "C13" -> {"CloneCount", "SrcDropped", "SrcModified"}
    [] c = "C15" -> {"Leak"}
    [] c = "C17" -> {"Abort", "Panic"}
    [] c = "C19" -> {"RefIdentity", "SrcModified", "SrcDropped", "CloneStart"}
    [] OTHER -> {}

Holds(m, c) == m.flags \cap FlagsOf(c) = {}
=============================================================================
