SPECIFICATION TSpec
CONSTANTS
  MaxLen = 0
  Family = "range"
CONSTRAINT Publish
POSTCONDITION Accepted
CHECK_DEADLOCK FALSE
