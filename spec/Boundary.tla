------------------------------ MODULE Boundary ------------------------------
(***************************************************************************)
(* C16: boundary arithmetic.  The INTENDED object - one sequential cursor    *)
(* over a source of `len` elements whose element at position p has value     *)
(* start + p - in IDEAL (unbounded) integer arithmetic, for inputs at the     *)
(* extremes of the machine word.                                            *)
(*                                                                         *)
(* TLC integers are 32-bit, so a number is a pair <<q, o>> denoting          *)
(* q * 2^63 + o with a small offset o.  Sums, differences, comparisons and   *)
(* minima of such numbers are exact as long as the offsets stay small, which *)
(* holds for the input domain C16 names ({0,1,small, MAX/2 +- small,         *)
(* MAX - small, MAX}) and everything a short script can reach from it.        *)
(* usize::MAX = 2^64 - 1 = <<2, -1>>.                                        *)
(*                                                                         *)
(* Two uses:                                                                *)
(*  - generation: TLC enumerates scripts (bounds x chunk sizes x operations)  *)
(*    from the boundary domain (history variable h, GenEmit);                 *)
(*  - validation (TraceBoundary): the same transition function predicts the  *)
(*    result of every recorded call of the real crate, in both overflow       *)
(*    modes of the build, and any difference is a violation of C16.           *)
(***************************************************************************)
EXTENDS Integers, Sequences, FiniteSets, TLC, Json

(***************************************************************************)
(* Ideal numbers                                                            *)
(***************************************************************************)
N(q, o) == <<q, o>>
Zero == N(0, 0)
MAXN == N(2, -1)
Add(a, b) == <<a[1] + b[1], a[2] + b[2]>>
Sub(a, b) == <<a[1] - b[1], a[2] - b[2]>>
Lt(a, b) == a[1] < b[1] \/ (a[1] = b[1] /\ a[2] < b[2])
Le(a, b) == a = b \/ Lt(a, b)
MinN(a, b) == IF Lt(b, a) THEN b ELSE a
IsSmallN(a) == a[1] = 0 /\ a[2] >= 0
\* a number fits a machine word iff 0 <= a <= 2^64 - 1
Fits(a) == Le(Zero, a) /\ Le(a, MAXN)
\* from / to the integer encoding of the trace files (see harness/src/sched.rs)
OfLog(x) == IF x < 1000000000 THEN N(0, x)
            ELSE IF x > 1900000000 THEN N(2, x - 2000000000)
            ELSE IF x > 1400000000 /\ x < 1600000000 THEN N(1, x - 1500000000)
            ELSE N(9, 0)                      \* not representable: equals nothing
ToLog(a) == IF a[1] = 0 THEN a[2] ELSE IF a[1] = 2 THEN 2000000000 + a[2] ELSE IF a[1] = 1 THEN 1500000000 + a[2] ELSE 1200000000

(***************************************************************************)
(* The ideal cursor.  st = [start, len, pos, buf, done]  (numbers)           *)
(*   kindIsRange: values are start + p;   otherwise values are 100 + p       *)
(***************************************************************************)
LenOfBounds(s, e) == IF Lt(s, e) THEN Sub(e, s) ELSE Zero      \* empty and inverted ranges are empty

ValueAt(st, p) == Add(st.base, p)

Remaining(st) == Sub(st.len, st.pos)

\* expected result of a pull of n (a number >= 1) when `take` items of the chunk are consumed
ChunkResult(st, n, take) ==
  IF ~Lt(st.pos, st.len) THEN [k |-> "none"]
  ELSE LET a == MinN(n, Remaining(st))
           kk == IF take = -1 THEN a ELSE MinN(N(0, take), a)      \* consumed by the caller (small)
       IN [k |-> "chunk", b |-> st.pos, alen |-> a,
           vals |-> [j \in 1..kk[2] |-> ValueAt(st, Add(st.pos, N(0, j - 1)))],
           lens |-> [j \in 1..(kk[2] + 1) |-> Sub(a, N(0, j - 1))],
           endnone |-> (take = -1 \/ Lt(a, N(0, take)))]

\* Expected(st, op) = <<result, next state>>
Expected(st, op) ==
  LET n == op.n IN
  CASE op.k \in {"next", "nextid"} ->
         IF Lt(st.pos, st.len)
           THEN <<[k |-> "item", idx |-> IF op.k = "nextid" THEN st.pos ELSE N(0, -1), val |-> ValueAt(st, st.pos)],
                  [st EXCEPT !.pos = Add(@, N(0, 1))]>>
           ELSE <<[k |-> "none"], st>>
    [] op.k = "chunk" ->
         IF n = Zero THEN <<[k |-> "none"], st>>        \* delivers nothing, leaves the iterator unchanged
         ELSE <<ChunkResult(st, n, op.take), [st EXCEPT !.pos = MinN(Add(@, n), st.len)]>>
    [] op.k = "bnew" ->
         IF n = Zero THEN <<[k |-> "panic"], st>>       \* documented: chunk size must be positive
         ELSE <<[k |-> "unit"], [st EXCEPT !.buf = n]>>
    [] op.k = "bnext" ->
         <<ChunkResult(st, st.buf, op.take), [st EXCEPT !.pos = MinN(Add(@, st.buf), st.len)]>>
    [] op.k \in {"foreach", "eforeach", "fold"} ->
         IF n = Zero THEN <<[k |-> "panic"], st>>
         ELSE <<[k |-> IF op.k = "fold" THEN "fold" ELSE "unit"], [st EXCEPT !.pos = st.len]>>   \* visits are checked by TraceProps
    [] op.k = "skip" -> <<[k |-> "unit"], [st EXCEPT !.pos = st.len,
                                                      !.skipFrom = IF st.skipped THEN @ ELSE st.pos, !.skipped = TRUE]>>
    [] op.k = "len" -> <<[k |-> "len", v |-> Remaining(st)], st>>
    [] op.k = "hasmore" -> <<[k |-> "hasmore", v |-> Remaining(st)], st>>
    [] op.k = "intoseq" ->
         LET a == Remaining(st)
             kk == IF op.take = -1 THEN a ELSE MinN(N(0, op.take), a) IN
         <<[k |-> "seq", vals |-> [j \in 1..kk[2] |-> ValueAt(st, Add(st.pos, N(0, j - 1)))],
            full |-> (op.take = -1 \/ Lt(a, N(0, op.take)))], [st EXCEPT !.done = TRUE]>>
    [] OTHER -> <<[k |-> "unit"], st>>

(***************************************************************************)
(* The position counter of the known-size kinds is one machine word.  A      *)
(* single pull advances it by 1, a chunk pull by min(requested, length)      *)
(* (the cap is fix 4404dbf of /repo), also after the end has been reached.   *)
(* Ctr(st, op) is its ideal value after op.  It can pass usize::MAX only for *)
(* ranges with about 2^63 elements or more (finding G2 as narrowed by the    *)
(* fix: the pinned tests of the crate require the counter to keep growing    *)
(* after the end, so it cannot be held at the length); mismatches after that *)
(* point are reported under a different name so that they can be told apart  *)
(* from everything else.                                                     *)
(***************************************************************************)
Ctr(st, op) ==
  LET c == st.ctr IN
  CASE op.k \in {"next", "nextid"} -> Add(c, N(0, 1))
    [] op.k = "chunk" -> Add(c, MinN(op.n, st.len))
    [] op.k = "bnext" -> Add(c, MinN(st.buf, st.len))
    [] op.k = "skip" -> st.len
    [] OTHER -> c
Wrapped(st) == ~Fits(st.ctr)
\* number of elements a pull asks for (C01 / C05 speak about histories whose cumulative requests stay below 2^64)
Requested(st, op) ==
  CASE op.k \in {"next", "nextid"} -> N(0, 1)
    [] op.k = "chunk" -> op.n
    [] op.k = "bnext" -> st.buf
    [] OTHER -> Zero
IsPull(op) == op.k \in {"next", "nextid", "bnext"} \/ (op.k = "chunk" /\ op.n # Zero)

(***************************************************************************)
(* Generation of scripts from the boundary domain                           *)
(***************************************************************************)
CONSTANTS MaxLen,      \* scripts have 1..MaxLen operations
          Family       \* "range" | "sized" (slice / vec / array / wrapped iterator with a small length)

Small == {N(0, 0), N(0, 1), N(0, 2), N(0, 3)}
Mid == {N(1, -2), N(1, -1), N(1, 0), N(1, 1), N(1, 2)}
Top == {N(2, -4), N(2, -3), N(2, -2), N(2, -1)}
Bnd == Small \cup Mid \cup Top

SizesFor(len) ==   \* chunk sizes {0, 1, len-1, len, len+1, MAX/2, MAX - small, MAX} that are machine words
  {n \in {Zero, N(0, 1), len, Add(len, N(0, 1)), N(1, -1), N(2, -3), MAXN}
          \cup (IF Lt(Zero, len) THEN {Sub(len, N(0, 1))} ELSE {}) : Fits(n)}

VARIABLES st, h
bvars == <<st, h>>

GenOps(len) ==
  {[k |-> k, n |-> Zero, take |-> -1] : k \in {"next", "nextid", "skip", "len", "hasmore"}}
  \cup {[k |-> "chunk", n |-> n, take |-> t] : n \in SizesFor(len), t \in {2}}
  \cup {[k |-> "bnew", n |-> n, take |-> -1] : n \in SizesFor(len)}
  \cup {[k |-> "bnext", n |-> Zero, take |-> 2]}
  \cup {[k |-> "intoseq", n |-> Zero, take |-> 3]}
  \cup {[k |-> k, n |-> n, take |-> -1] : k \in {"foreach", "fold"}, n \in {Zero}}

BInit ==
  /\ \E s \in Bnd, e \in Bnd, l \in 0..3 :
       st = IF Family = "range"
              THEN [base |-> s, len |-> LenOfBounds(s, e), pos |-> Zero, buf |-> Zero, done |-> FALSE, start |-> s, end |-> e, skipped |-> FALSE, skipFrom |-> Zero, ctr |-> Zero, endSeen |-> FALSE, req |-> Zero]
              ELSE [base |-> N(0, 100), len |-> N(0, l), pos |-> Zero, buf |-> Zero, done |-> FALSE, start |-> Zero, end |-> N(0, l), skipped |-> FALSE, skipFrom |-> Zero, ctr |-> Zero, endSeen |-> FALSE, req |-> Zero]
  /\ h = << >>

BNext ==
  /\ Len(h) < MaxLen /\ ~st.done
  /\ \E op \in GenOps(st.len) :
       /\ op.k = "bnext" => st.buf # Zero
       /\ op.k = "bnew" => st.buf = Zero
       \* huge pulls are only generated where the harness can consume them (a few items are taken)
       /\ st' = [Expected(st, op)[2] EXCEPT !.ctr = Ctr(st, op), !.req = Add(@, Requested(st, op)),
                                            !.endSeen = @ \/ (IsPull(op) /\ Expected(st, op)[1].k = "none")]
       /\ h' = Append(h, [k |-> op.k, n |-> ToLog(op.n), take |-> op.take])

BSpec == BInit /\ [][BNext]_bvars

GenEmit == (Len(h) = MaxLen \/ st.done) =>
             PrintT(<<"SCN", ToJson([start |-> ToLog(st.start), end |-> ToLog(st.end), len |-> st.end[2], ops |-> h])>>)
=============================================================================
