SPECIFICATION Spec
CONSTRAINT Publish
POSTCONDITION Accepted
CHECK_DEADLOCK FALSE
