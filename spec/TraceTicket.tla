---------------------------- MODULE TraceTicket ----------------------------
(***************************************************************************)
(* Trace validation, implementation level, ConIterOfIter family (E2):        *)
(* every recorded call, atomic operation (location, kind, memory ordering,   *)
(* operand, observed value), entry/exit of the wrapped next() (with the      *)
(* item), closure visit and return (complete result) of a run of the real    *)
(* crate must be the next step of module Ticket for that thread - including  *)
(* the poll-reduction rule of the scheduler.                                 *)
(* Divergences are collected as <<run, line, what>>; see TraceCounter.       *)
(***************************************************************************)
EXTENDS Ticket, IOUtils

Rec == ndJsonDeserialize(IOEnv.TRACE)
N == Len(Rec)

VARIABLES l, run, ign, expv, div, cnt
tvars == <<l, run, ign, expv, div, cnt>>
allvars == <<vars, tvars>>

E == Rec[l]
IsEvent(name) == l <= N /\ E.e = name
W(x) == IF x < 1000000000 THEN x ELSE IF x > 1900000000 THEN MOD - (2000000000 - x) ELSE -1

CfgOfRun(e) ==
  [ len |-> e.len, nt |-> e.threads, hint |-> e.hint, base |-> 100,
    consuming |-> e.consuming, clones |-> e.kind = "cloned_iter", panicAt |-> e.pnext,
    revive |-> IF "revive" \in DOMAIN e THEN e.revive ELSE 0, kind |-> e.kind ]

Supported == {"next", "nextid", "chunk", "bnew", "bnext", "bdrop", "foreach", "eforeach", "fold",
              "values", "idsvalues", "skip", "len", "hasmore", "intoseq", "drop"}

Skip == l' = l + 1 /\ UNCHANGED <<vars, run, ign, expv, div, cnt>>
Diverge(what) ==
  /\ l' = l + 1 /\ ign' = TRUE
  /\ div' = div \cup {<<run, l, what>>}
  /\ UNCHANGED <<vars, run, expv, cnt>>
\* cnt counts, per action of module Ticket, how many recorded events were explained by it (coverage of the model
\* by the executions of the real crate; an action that is never matched was never exercised in the code)
CntNames == {"runs", "results", "DropElem", "Reserve", "Pub", "LoadY", "Chk", "LoadC", "LenLoadC", "LenLoadR", "SkipStoreR",
             "SetC", "SkipStoreC", "PGuard", "Enter", "SeqEnter", "Exit", "SeqExit"}
Matched(name) == /\ l' = l + 1
                 /\ cnt' = [cnt EXCEPT ![name] = @ + 1]
                 /\ UNCHANGED <<run, ign, div>>

TReset ==
  /\ IsEvent("Reset")
  /\ l' = l + 1 /\ run' = E.run
  /\ LET ok == E.fam = "ticket" /\ ~("aborted" \in DOMAIN E) /\ E.dpanic = 0 /\ E.cpanic = 0 IN
     /\ ign' = ~ok
     /\ IF ok THEN ResetWith(CfgOfRun(E)) /\ expv' = [t \in 0..E.threads |-> << >>]
        ELSE UNCHANGED <<vars, expv>>
     /\ cnt' = IF ok THEN [cnt EXCEPT !["runs"] = @ + 1] ELSE cnt
  /\ UNCHANGED div

TIgnored == l <= N /\ E.e # "Reset" /\ ign /\ Skip
TOther == /\ l <= N /\ ~ign
          /\ \/ E.e \in {"Mem", "SrcCheck", "CloneElem", "Partial", "End", "HintRead"}
             \/ (E.e = "DropElem" /\ ~OwnApplies)
          /\ Skip

\* owning elements: every destructor the machinery runs is the one the model predicted next for the step in progress;
\* between calls the only destructors are those of the leftovers of the thread's buffered iterator, which the
\* harness drops at the end of the thread's program (in slot order)
TDropElem ==
  /\ IsEvent("DropElem") /\ ~ign /\ OwnApplies
  /\ IF own.expd[E.t] # << >> /\ Head(own.expd[E.t]) = E.id
       THEN /\ own' = [own EXCEPT !.expd[E.t] = Tail(@)]
            /\ l' = l + 1
            /\ cnt' = [cnt EXCEPT !["DropElem"] = @ + 1]
            /\ UNCHANGED <<cf, reserved, yielded, completed, taken, noneSeen, calls, alive, pc, op, tk, got, polled, left, res, buf, nops, mon, hb, h, run, ign, expv, div>>
     ELSE IF own.expd[E.t] = << >> /\ pc[E.t] \in {"idle", "done"} /\ Leftovers(own.slots[E.t]) # << >>
             /\ cf.base + Head(Leftovers(own.slots[E.t])) = E.id
       THEN /\ LET sl == own.slots[E.t]
                    j == CHOOSE i \in 1..Len(sl) : sl[i] # -1 /\ \A i2 \in 1..(i - 1) : sl[i2] = -1 IN
               own' = [own EXCEPT !.slots[E.t] = [sl EXCEPT ![j] = -1]]
            /\ mon' = MDropElem(mon, E.id, TRUE)
            /\ l' = l + 1
            /\ cnt' = [cnt EXCEPT !["DropElem"] = @ + 1]
            /\ UNCHANGED <<cf, reserved, yielded, completed, taken, noneSeen, calls, alive, pc, op, tk, got, polled, left, res, buf, nops, hb, h, run, ign, expv, div>>
     ELSE Diverge("drop")
TStop == /\ l <= N /\ ~ign /\ E.e \in {"Hang", "Abort"}
         /\ l' = l + 1 /\ ign' = TRUE /\ UNCHANGED <<vars, run, expv, div, cnt>>

TCall ==
  /\ IsEvent("Call") /\ ~ign
  /\ LET o == [k |-> E.op, n |-> W(E.n), take |-> E.take,
               \* the client discards the rest of the chunk through the chunk iterator (the harness does so only
               \* when it stopped taking before the chunk reported its end)
               fin |-> (E.op = "bnext" /\ "via" \in DOMAIN E /\ E.via >= 4 /\ E.take # -1)] IN
     \* low-level calls, panicking closures and requests of 2^63 and more (the model's word is MOD) are not modelled here
     IF E.op \notin Supported \/ E.pa > 0 \/ E.n >= 1000000000
       THEN l' = l + 1 /\ ign' = TRUE /\ UNCHANGED <<vars, run, expv, div, cnt>>
     ELSE IF pc[E.t] = "idle" /\ alive /\ (E.op = "bnext" => buf[E.t] > 0 /\ buf[E.t] = W(E.n))
       THEN /\ CallBody(E.t, IF E.op = "bnext" THEN [o EXCEPT !.n = 0] ELSE o)
            /\ l' = l + 1
            /\ UNCHANGED <<run, ign, expv, div, cnt>>
     ELSE Diverge("call")

NewVisits(t) == SubSeq(mon'.cur[t], Len(mon.cur[t]) + 1, Len(mon'.cur[t]))
WithVisits(t) == expv' = [expv EXCEPT ![t] = @ \o NewVisits(t)]
B2N(b) == IF b THEN 1 ELSE 0

\* location 0 = reserved, 1 = yielded, 2 = completed (creation order of the atomics)
TAtomic ==
  /\ IsEvent("A") /\ ~ign
  /\ LET t == E.t
         p == pc[t]
     IN
     CASE E.op = "fa" /\ E.loc = 0 ->
            IF p = "res" /\ W(E.arg) = Want(t) /\ W(E.saw) = reserved /\ E.ord = "AcqRel"
              THEN Reserve(t) /\ Matched("Reserve") /\ UNCHANGED expv ELSE Diverge("reserve")
       [] E.op = "fa" /\ E.loc = 1 ->
            IF p = "pub" /\ W(E.saw) = yielded /\ E.ord = "AcqRel"
               /\ W(E.arg) = (IF PullKind(t) = "s" THEN 1 ELSE Want(t))
              THEN Pub(t) /\ Matched("Pub") /\ WithVisits(t) ELSE Diverge("publish")
       [] E.op = "ld" /\ E.loc = 1 ->
            IF p = "ly" /\ "y" \notin polled[t] /\ W(E.saw) = yielded /\ E.ord = OrdCurrent
              THEN LoadY(t) /\ Matched("LoadY") /\ WithVisits(t) ELSE Diverge("load-yielded")
       [] E.op = "ld" /\ E.loc = 2 ->
            IF W(E.saw) # B2N(completed) THEN Diverge("load-completed-value")
            ELSE IF p = "chk" /\ E.ord = "SeqCst" THEN Chk(t) /\ Matched("Chk") /\ WithVisits(t)
            ELSE IF p = "lc" /\ "c" \notin polled[t] /\ E.ord = "Relaxed" THEN LoadC(t) /\ Matched("LoadC") /\ WithVisits(t)
            ELSE IF p = "ldc" /\ E.ord = "SeqCst" THEN LenLoadC(t) /\ Matched("LenLoadC") /\ UNCHANGED expv
            ELSE Diverge("load-completed")
       [] E.op = "ld" /\ E.loc = 0 ->
            IF p = "ldr" /\ W(E.saw) = reserved /\ E.ord = OrdCurrent
              THEN LenLoadR(t) /\ Matched("LenLoadR") /\ UNCHANGED expv ELSE Diverge("load-reserved")
       [] E.op = "st" /\ E.loc = 0 ->
            IF p = "str" /\ W(E.arg) = MAXW
              THEN SkipStoreR(t) /\ Matched("SkipStoreR") /\ UNCHANGED expv ELSE Diverge("store-reserved")
       [] E.op = "st" /\ E.loc = 2 ->
            IF W(E.arg) # 1 THEN Diverge("store-completed-value")
            ELSE IF p = "setc" THEN SetC(t) /\ Matched("SetC") /\ WithVisits(t)
            ELSE IF p = "stc" THEN SkipStoreC(t) /\ Matched("SkipStoreC") /\ UNCHANGED expv
            ELSE IF p = "pguard" THEN PGuard(t) /\ Matched("PGuard") /\ UNCHANGED expv
            ELSE Diverge("store-completed")
       [] OTHER -> Diverge("atomic")

TNextEnter ==
  /\ IsEvent("NextEnter") /\ ~ign
  /\ IF pc[E.t] = "enter" THEN Enter(E.t) /\ Matched("Enter") /\ UNCHANGED expv
     ELSE IF pc[E.t] = "senter" THEN SeqEnter(E.t) /\ Matched("SeqEnter") /\ UNCHANGED expv
     ELSE Diverge("next-enter")

ExpectedItem == IF calls + 1 = cf.panicAt THEN -2 ELSE IF HasItem THEN cf.base + taken ELSE -1

TNextExit ==
  /\ IsEvent("NextExit") /\ ~ign
  /\ IF E.item # ExpectedItem THEN Diverge("next-item")
     ELSE IF pc[E.t] = "exit" THEN Exit(E.t) /\ Matched("Exit") /\ UNCHANGED expv
     ELSE IF pc[E.t] = "sexit" THEN SeqExit(E.t) /\ Matched("SeqExit") /\ UNCHANGED expv
     ELSE Diverge("next-exit")

TVisit ==
  /\ IsEvent("Visit") /\ ~ign
  /\ IF expv[E.t] # << >> /\ Head(expv[E.t]) = E.val
       THEN /\ expv' = [expv EXCEPT ![E.t] = Tail(@)]
            /\ l' = l + 1
            /\ UNCHANGED <<vars, run, ign, div, cnt>>
       ELSE Diverge("visit")

SameRes(m, r) ==
  /\ m.k = r.k
  /\ CASE m.k = "item" -> m.idx = W(r.idx) /\ m.val = r.val
       [] m.k = "chunk" -> /\ m.b = W(r.b) /\ m.alen = W(r.alen) /\ m.vals = r.vals
                           /\ m.lens = r.lens /\ m.endnone = r.endnone
       [] m.k = "len" -> m.some = r.some /\ m.v = W(r.v)
       [] m.k = "hasmore" -> m.a = r.a /\ m.v = W(r.v)
       [] m.k = "fold" -> m.vals = r.vals
       [] m.k = "seq" -> m.vals = r.vals /\ m.full = r.full
       [] m.k = "panic" -> m.probe = r.probe
       [] OTHER -> TRUE

TRet ==
  /\ IsEvent("Ret") /\ ~ign
  /\ IF pc[E.t] = "ret" /\ (expv[E.t] = << >> \/ res[E.t].k = "panic") /\ own.expd[E.t] = << >> /\ SameRes(res[E.t], E.res)
       THEN /\ Ret(E.t)
            /\ expv' = [expv EXCEPT ![E.t] = << >>]
            /\ l' = l + 1
            /\ cnt' = [cnt EXCEPT !["results"] = @ + 1]
            /\ UNCHANGED <<run, ign, div>>
       ELSE Diverge("return")

TInit ==
  /\ Init
  /\ l = 1 /\ run = -1 /\ ign = TRUE
  /\ expv = [t \in 0..NT |-> << >>]
  /\ div = {}
  /\ cnt = [k \in CntNames |-> 0]

TNext == TReset \/ TIgnored \/ TOther \/ TDropElem \/ TStop \/ TCall \/ TAtomic \/ TNextEnter \/ TNextExit \/ TVisit \/ TRet
TSpec == TInit /\ [][TNext]_allvars

Publish == TLCSet(1, div) /\ TLCSet(2, l) /\ TLCSet(3, cnt)
Accepted ==
  LET consumed == TLCGet(2) - 1 IN
  /\ PrintT(<<"DIV", ToJson(TLCGet(1))>>)
  /\ PrintT(<<"MATCHED", ToJson(TLCGet(3))>>)
  /\ PrintT(<<"CONSUMED", consumed, N>>)
  /\ IF consumed = N THEN TRUE
     ELSE PrintT(<<"UNMATCHED", consumed + 1, ToJson(Rec[consumed + 1])>>) /\ FALSE
=============================================================================
