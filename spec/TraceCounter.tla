---------------------------- MODULE TraceCounter ----------------------------
(***************************************************************************)
(* Trace validation, implementation level, known-size kinds (engine E2):     *)
(* every recorded call, atomic operation (with operand and observed value),  *)
(* closure visit and return (with the complete result) of a run of the real  *)
(* crate must be the next step of module Counter for that thread.            *)
(*                                                                         *)
(* This is the conformance check proper: it establishes that the code that   *)
(* was executed is the design that TLC verified, so the exhaustive E1        *)
(* results transfer to the code for the configurations whose every           *)
(* behaviour is replayed.  An event the model cannot take is recorded as a   *)
(* divergence <<run, line, event>> and the rest of that run is skipped; the  *)
(* property-level verdict on such a run is still given by TraceProps.        *)
(***************************************************************************)
EXTENDS Counter, IOUtils

Rec == ndJsonDeserialize(IOEnv.TRACE)
N == Len(Rec)

VARIABLES l,     \* next line
          run,   \* current run id
          ign,   \* rest of the run is not matched (diverged, other family, unsupported operation)
          expv,  \* per thread: visits the model expects next
          div,   \* set of <<run, line, what>>
          cnt    \* [runs matched, atomic events matched, results matched]

tvars == <<l, run, ign, expv, div, cnt>>
allvars == <<vars, tvars>>

E == Rec[l]
IsEvent(name) == l <= N /\ E.e = name

\* real machine words -> the model's word space
W(x) == IF x < 1000000000 THEN x ELSE IF x > 1900000000 THEN MOD - (2000000000 - x) ELSE -1

ModelKind(k) ==
  CASE k \in {"slice", "vecref", "arrref", "cloned_slice", "copied_slice", "numslice"} -> "slice"
    [] k \in {"range", "rangeref"} -> "range"
    [] OTHER -> k

CfgOfRun(e) ==
  [ len |-> e.len, nt |-> e.threads, start |-> W(e.start), kind |-> ModelKind(e.kind),
    base |-> IF ModelKind(e.kind) = "range" THEN W(e.start) ELSE 100,
    consuming |-> e.consuming, clones |-> e.kind = "cloned_slice" ]

Supported == {"next", "nextid", "chunk", "bnew", "bnext", "bdrop", "foreach", "eforeach", "fold",
              "values", "idsvalues", "skip", "len", "hasmore", "clone", "intoseq", "drop"}

Skip == /\ l' = l + 1
        /\ UNCHANGED <<vars, run, ign, expv, div, cnt>>

Diverge(what) ==
  /\ l' = l + 1
  /\ ign' = TRUE
  /\ div' = div \cup {<<run, l, what>>}
  /\ UNCHANGED <<vars, run, expv, cnt>>

TReset ==
  /\ IsEvent("Reset")
  /\ l' = l + 1
  /\ run' = E.run
  /\ LET ok == E.fam = "counter" /\ ~("aborted" \in DOMAIN E) /\ W(E.start) >= 0 /\ E.dpanic = 0
                /\ E.cpanic = 0
                /\ E.kind \notin {"vec_zst", "array_zst", "vec_h"} IN     \* zero-sized / boxed elements: other ledger
     /\ ign' = ~ok
     /\ IF ok THEN ResetWith(CfgOfRun(E)) /\ expv' = [t \in 0..E.threads |-> << >>]
        ELSE UNCHANGED <<vars, expv>>
     /\ cnt' = IF ok THEN [cnt EXCEPT !["runs"] = @ + 1] ELSE cnt
  /\ UNCHANGED div

TIgnored ==
  /\ l <= N /\ E.e # "Reset" /\ ign
  /\ Skip

\* events that have no counterpart in this model (ledger, probes of other layers)
TOther ==
  /\ l <= N /\ ~ign
  /\ \/ E.e \in {"SrcCheck", "CloneElem", "Partial", "End", "HintRead"}
     \/ (E.e \in {"Mem", "DropElem"} /\ ~OwnApplies)
  /\ Skip

\* consuming kinds: every destructor the machinery runs is one the model predicted for this step, in order
TDropElem ==
  /\ IsEvent("DropElem") /\ ~ign /\ OwnApplies
  /\ IF own.expd[E.t] # << >> /\ Head(own.expd[E.t]) = E.id
       THEN /\ own' = [own EXCEPT !.expd[E.t] = Tail(@)]
            /\ l' = l + 1
            /\ cnt' = [cnt EXCEPT !["DropElem"] = @ + 1]
            /\ UNCHANGED <<cf, counter, alive, pc, op, tk, left, res, buf, nops, mon, h, run, ign, expv, div>>
       ELSE Diverge("drop")

\* the allocator ledger agrees with the model's account of the consumed collection's buffer
TMem ==
  /\ IsEvent("Mem") /\ ~ign /\ OwnApplies
  /\ IF E.at = "start" \/ E.live = own.heap THEN Skip ELSE Diverge("heap")

TStop ==      \* a run that hung or aborted is not matched further
  /\ l <= N /\ ~ign
  /\ E.e \in {"Hang", "Abort"}
  /\ l' = l + 1 /\ ign' = TRUE
  /\ UNCHANGED <<vars, run, expv, div, cnt>>

TCall ==
  /\ IsEvent("Call") /\ ~ign
  /\ LET o == [k |-> E.op, n |-> W(E.n), take |-> E.take, it |-> E.it] IN
     IF E.op \notin Supported \/ E.pa > 0      \* low-level calls and panicking closures are not modelled here
       THEN l' = l + 1 /\ ign' = TRUE /\ UNCHANGED <<vars, run, expv, div, cnt>>   \* low-level calls: not modelled here
     ELSE IF pc[E.t] = "idle" /\ E.it \in alive /\ (E.op = "bnext" => buf[E.t][E.it] > 0 /\ buf[E.t][E.it] = W(E.n))
       THEN /\ CallBody(E.t, IF E.op = "bnext" THEN [o EXCEPT !.n = 0] ELSE o)
            /\ l' = l + 1
            /\ UNCHANGED <<run, ign, expv, div, cnt>>
     ELSE Diverge("call")

\* visits the model has just added to the monitor of iterator i for thread t
NewVisits(t, i) == SubSeq(mon'[i].cur[t], Len(mon[i].cur[t]) + 1, Len(mon'[i].cur[t]))

TFetchAdd ==
  /\ IsEvent("A") /\ ~ign /\ E.op = "fa"
  /\ IF pc[E.t] = "fa" /\ op[E.t].it = E.loc /\ E.loc \in Its /\ AddSize(E.t) = W(E.arg)
        /\ counter[E.loc] = W(E.saw)
       THEN /\ FetchAdd(E.t)
            /\ l' = l + 1
            /\ expv' = [expv EXCEPT ![E.t] = @ \o NewVisits(E.t, E.loc)]
            /\ cnt' = [cnt EXCEPT !["FetchAdd"] = @ + 1]
            /\ UNCHANGED <<run, ign, div>>
       ELSE Diverge("fetch_add")

TLoad ==
  /\ IsEvent("A") /\ ~ign /\ E.op = "ld"
  /\ IF pc[E.t] \in {"ld", "ld2"} /\ op[E.t].it = E.loc /\ E.loc \in Its /\ counter[E.loc] = W(E.saw)
       THEN /\ Load(E.t)
            /\ l' = l + 1
            /\ cnt' = [cnt EXCEPT !["Load"] = @ + 1]
            /\ UNCHANGED <<run, ign, expv, div>>
       ELSE Diverge("load")

TStore ==
  /\ IsEvent("A") /\ ~ign /\ E.op = "st"
  /\ IF pc[E.t] = "st" /\ op[E.t].it = E.loc /\ E.loc \in Its /\ W(E.arg) = SkipTo
       THEN /\ Store(E.t)
            /\ l' = l + 1
            /\ cnt' = [cnt EXCEPT !["Store"] = @ + 1]
            /\ UNCHANGED <<run, ign, expv, div>>
       ELSE Diverge("store")

\* any other atomic operation (swap, compare-exchange, ...) is not a step of this model: the code was restructured
TAtomicOther ==
  /\ IsEvent("A") /\ ~ign /\ E.op \notin {"fa", "ld", "st"}
  /\ Diverge("atomic")

TVisit ==
  /\ IsEvent("Visit") /\ ~ign
  /\ IF expv[E.t] # << >> /\ Head(expv[E.t]) = E.val
        /\ W(E.idx) = (IF op[E.t].k \in {"eforeach", "idsvalues"} THEN E.val - cf.base ELSE -1)
       THEN /\ expv' = [expv EXCEPT ![E.t] = Tail(@)]
            /\ l' = l + 1
            /\ UNCHANGED <<vars, run, ign, div, cnt>>
       ELSE Diverge("visit")

\* the result the model computed equals the result the code returned (addresses aside)
SameRes(m, r) ==
  /\ m.k = r.k
  /\ CASE m.k = "item" -> m.idx = W(r.idx) /\ m.val = r.val
       [] m.k = "chunk" -> /\ m.b = W(r.b) /\ m.alen = W(r.alen) /\ m.vals = r.vals
                           /\ m.lens = r.lens /\ m.endnone = r.endnone
       [] m.k = "len" -> m.some = r.some /\ m.v = W(r.v)
       [] m.k = "hasmore" -> m.a = r.a /\ m.v = W(r.v)
       [] m.k = "fold" -> m.vals = r.vals
       [] m.k = "seq" -> m.vals = r.vals /\ m.full = r.full
       [] m.k = "cloned" -> m.new = r.new
       [] OTHER -> TRUE

TRet ==
  /\ IsEvent("Ret") /\ ~ign
  /\ IF pc[E.t] = "ret" /\ expv[E.t] = << >> /\ own.expd[E.t] = << >> /\ SameRes(res[E.t], E.res)
       THEN /\ Ret(E.t)
            /\ l' = l + 1
            /\ cnt' = [cnt EXCEPT !["results"] = @ + 1]
            /\ UNCHANGED <<run, ign, expv, div>>
       ELSE Diverge("return")

TInit ==
  /\ Init
  /\ l = 1 /\ run = -1 /\ ign = TRUE
  /\ expv = [t \in 0..NT |-> << >>]
  /\ div = {}
  /\ cnt = [k \in {"runs", "results", "FetchAdd", "Load", "Store", "DropElem"} |-> 0]

TNext == TReset \/ TIgnored \/ TOther \/ TDropElem \/ TMem \/ TStop \/ TCall \/ TFetchAdd \/ TLoad \/ TStore \/ TAtomicOther \/ TVisit \/ TRet

TSpec == TInit /\ [][TNext]_allvars

Publish == TLCSet(1, div) /\ TLCSet(2, l) /\ TLCSet(3, cnt)

Accepted ==
  LET consumed == TLCGet(2) - 1 IN
  /\ PrintT(<<"DIV", ToJson(TLCGet(1))>>)
  /\ PrintT(<<"MATCHED", ToJson(TLCGet(3))>>)
  /\ PrintT(<<"CONSUMED", consumed, N>>)
  /\ IF consumed = N THEN TRUE
     ELSE PrintT(<<"UNMATCHED", consumed + 1, ToJson(Rec[consumed + 1])>>) /\ FALSE
=============================================================================
