----------------------------- MODULE CounterInd -----------------------------
(***************************************************************************)
(* Inductive invariant for the reservation scheme of the known-size kinds    *)
(* (C01 no-duplicate, C04 prefix), checked with Apalache: unbounded in the   *)
(* number of calls per thread and in the values of the counter, for a fixed  *)
(* small number of threads and length.  Abstraction of module Counter: a     *)
(* pull is Reserve (the fetch_add) followed by Deliver (the return);         *)
(* skip_to_end is the store of the length.                                   *)
(*   Init => IndInv ;  IndInv /\ Next => IndInv' ;  IndInv => Safe           *)
(***************************************************************************)
EXTENDS Integers, FiniteSets, Apalache

CONSTANTS
  \* @type: Set(Str);
  Thread,
  \* @type: Int;
  SrcLen,
  \* @type: Int;
  MaxReq

VARIABLES
  \* @type: Int;
  counter,
  \* @type: Str -> Bool;
  got,
  \* @type: Str -> Int;
  beg,
  \* @type: Str -> Int;
  req,
  \* @type: Int -> Int;
  deliv,
  \* @type: Bool;
  skipped

Pos == 0..(SrcLen - 1)

ConstInit == Thread = {"t1", "t2", "t3"} /\ SrcLen = 4 /\ MaxReq = 6

Init ==
  /\ counter = 0
  /\ got = [t \in Thread |-> FALSE]
  /\ beg = [t \in Thread |-> 0]
  /\ req = [t \in Thread |-> 1]
  /\ deliv = [p \in Pos |-> 0]
  /\ skipped = FALSE

InRes(t, p) == got[t] /\ beg[t] <= p /\ p < beg[t] + req[t]

Reserve(t) ==
  \E n \in 1..MaxReq :
    /\ ~got[t]
    /\ got' = [got EXCEPT ![t] = TRUE]
    /\ beg' = [beg EXCEPT ![t] = counter]
    /\ req' = [req EXCEPT ![t] = n]
    /\ counter' = counter + n
    /\ UNCHANGED <<deliv, skipped>>

Deliver(t) ==
  /\ got[t]
  /\ got' = [got EXCEPT ![t] = FALSE]
  /\ deliv' = [p \in Pos |-> IF beg[t] <= p /\ p < beg[t] + req[t] THEN deliv[p] + 1 ELSE deliv[p]]
  /\ UNCHANGED <<counter, beg, req, skipped>>

Skip ==
  /\ counter' = SrcLen
  /\ skipped' = TRUE
  /\ UNCHANGED <<got, beg, req, deliv>>

Next == (\E t \in Thread : Reserve(t) \/ Deliver(t)) \/ Skip

\* the property: nothing is ever delivered twice; without a skip, at quiescence the delivered set is a prefix
Safe ==
  /\ \A p \in Pos : deliv[p] <= 1
  /\ (~skipped /\ \A t \in Thread : ~got[t]) => \A p \in Pos : (deliv[p] = 1) <=> (p < counter)

\* Without a skip the counter only grows, and every position below it is either delivered or reserved.
\* After a skip the counter may be moved DOWN to SrcLen (it overshoots), so reservations are related to it
\* only through "whatever is neither delivered nor reserved lies at or above min(counter, SrcLen)".
IndInv ==
  /\ counter >= 0
  /\ \A t \in Thread : req[t] >= 1 /\ req[t] <= MaxReq /\ beg[t] >= 0
  /\ \A t \in Thread : (got[t] /\ ~skipped) => beg[t] + req[t] <= counter
  \* no source position is reserved twice (beyond the length reservations may overlap after a skip has moved
  \* the overshot counter down to the length - they deliver nothing)
  /\ \A p \in Pos : \A t \in Thread, u \in Thread : (t # u) => ~(InRes(t, p) /\ InRes(u, p))
  /\ \A p \in Pos : deliv[p] >= 0 /\ deliv[p] <= 1
  /\ \A p \in Pos : deliv[p] = 1 => \A t \in Thread : ~InRes(t, p)
  /\ ~skipped => \A p \in Pos : (deliv[p] = 0 /\ \A t \in Thread : ~InRes(t, p)) => (p >= counter)
  /\ skipped => counter >= SrcLen
  /\ ~skipped => \A p \in Pos : (deliv[p] = 1 \/ \E t \in Thread : InRes(t, p)) => p < counter
  \* a reservation never starts below a position that is still free (so a later fetch_add cannot overlap it)
  /\ ~skipped => \A t \in Thread : got[t] => \A p \in Pos : (deliv[p] = 0 /\ \A u \in Thread : ~InRes(u, p)) => p >= beg[t] + req[t]

\* an arbitrary state of the right shape that satisfies the invariant (start of the induction step)
IndInit ==
  /\ counter = Gen(1)
  /\ got = Gen(3)
  /\ beg = Gen(3)
  /\ req = Gen(3)
  /\ deliv = Gen(4)
  /\ skipped = Gen(1)
  /\ DOMAIN got = Thread /\ DOMAIN beg = Thread /\ DOMAIN req = Thread /\ DOMAIN deliv = Pos
  /\ IndInv
=============================================================================
