SPECIFICATION Spec
CONSTANTS
  NT = 2
  SrcLen = 2
  Start = 0
  IsRange = FALSE
  Consuming = FALSE
  MaxOps = 2
  Sizes = {1, 2, 3}
  OpKinds = {"next", "nextid", "chunk", "bnew", "bnext", "foreach", "eforeach", "fold", "values", "idsvalues", "skip", "len", "hasmore"}
  MOD = 64
  Mutant = ""
VIEW view
INVARIANTS
  NoFlags
  Inv_NoWrap
  Inv_C09_LockFree
CHECK_DEADLOCK FALSE
