------------------------------ MODULE Counter ------------------------------
(***************************************************************************)
(* Implementation-level model of the known-size concurrent iterators        *)
(* (ConIterOfSlice / ConIterOfVec / ConIterOfArray / ConIterOfRange and the  *)
(* Cloned / Copied adaptors over them), including clones of iterators over   *)
(* the same collection, into_seq_iter and drop.                              *)
(*                                                                         *)
(* Shared state per iterator: ONE machine word counter[it].  Every pull is   *)
(*      begin = counter.fetch_add(n)          (the only shared-memory step)  *)
(*      result = f(begin, n, len)             (local)                        *)
(* skip_to_end is counter.store(skipTo); try_get_len is a load; Clone is a   *)
(* load into a fresh counter; into_seq_iter / Drop load it once more.        *)
(*                                                                         *)
(* Grain: one action per scheduling point of the conformance harness         *)
(* (call boundary, each atomic operation, return boundary), so a behaviour   *)
(* of this model IS a schedule of the harness (history variable h), and a    *)
(* recorded execution is matched action by action (TraceCounter).            *)
(* Machine words are integers modulo MOD (MOD-1 stands for usize::MAX);      *)
(* the trace specs map real words into this space.                           *)
(*                                                                         *)
(* The run configuration is a variable (cf) so that one TLC run can          *)
(* validate a batch of recorded runs of different lengths and kinds; in      *)
(* model checking it is fixed by the constants.                              *)
(***************************************************************************)
EXTENDS Props, TLC, Json

CONSTANTS
  NT,        \* number of worker threads
  SrcLen,    \* length of the source
  Start,     \* first value of a range (0 otherwise)
  Kind,      \* "slice" | "range" | "vec" | "array"   (adaptors and con_iter() map onto these)
  MaxOps,    \* calls per worker thread
  OwnerOps,  \* calls of the owning thread after the workers are done (0 = none)
  Sizes,     \* chunk sizes offered to chunk / bnew / foreach
  TakeSet,   \* how many items of a chunk the caller consumes (9 = all; cfg files cannot say -1)
  OpKinds,   \* subset of the operation vocabulary enabled in this configuration
  MOD,       \* modulus of the machine word
  Mutant     \* "" = the code as it is; otherwise the name of a seeded design mutation (self-test)

VARIABLES
  cf,        \* configuration of the run
  counter,   \* it -> the shared position counter of iterator it
  alive,     \* set of iterators that have not been consumed by into_seq_iter / drop
  pc,        \* per thread: "idle" | "fa" | "ld" | "ld2" | "st" | "ret" | "done"
  op,        \* per thread: operation in flight [k, n, take, it]
  tk,        \* per thread: value observed by its last atomic operation
  left,      \* per thread: remaining iterations of a bounded loop op (values/idsvalues with take)
  res,       \* per thread: result to be returned
  buf,       \* per thread: it -> chunk size of its buffered iterator (0 = none)
  nops,      \* per thread: calls made
  mon,       \* it -> Props monitor
  own,       \* consuming kinds (vec, array): [slot: position -> "in" | "out" (element still owned by the storage or
             \*   moved out / dropped), heap: bytes of the consumed collection's buffer still allocated,
             \*   expd: per thread, the values whose destructor the machinery runs in the current step]
  h          \* history: [sched: sequence of worker ids, prog: per-thread programs]

vars == <<cf, counter, alive, pc, op, tk, left, res, buf, nops, mon, own, h>>
view == <<cf, counter, alive, pc, op, tk, left, res, buf, nops, mon, own>>

Workers == 1..cf.nt
T == 0..cf.nt                 \* 0 = the owning thread (sequential phases)
Its == DOMAIN counter
Wrap(x) == IF x >= MOD THEN x - MOD ELSE x
IsRange == cf.kind = "range"
HasDrop == cf.kind \in {"vec", "array"}
SkipTo == cf.len      \* every kind stores the LENGTH (an index); until fix 94d3de8 the range kind stored its end value

CfgOfModel ==
  [ len |-> SrcLen, nt |-> NT, start |-> Start, kind |-> Kind,
    base |-> IF Kind = "range" THEN Start ELSE 100,
    consuming |-> Kind \in {"vec", "array"}, clones |-> FALSE ]

MonCfg(c) == [len |-> c.len, base |-> c.base, fam |-> "counter", hint |-> "exact",
              consuming |-> c.consuming, clones |-> c.clones, nthreads |-> c.nt, extra |-> 0, faults |-> 0, kind |-> c.kind]

Takes == {IF j = 9 THEN -1 ELSE j : j \in TakeSet}
OwnerOnly == {"clone", "intoseq", "drop"}

Ops ==
  LET on(k) == k \in OpKinds
      sized(k) == IF on(k) THEN {[k |-> k, n |-> n, take |-> -1, it |-> 0] : n \in Sizes} ELSE {}
      plain(k) == IF on(k) THEN {[k |-> k, n |-> 0, take |-> -1, it |-> 0]} ELSE {}
      taking(k) == IF on(k) THEN {[k |-> k, n |-> 0, take |-> j, it |-> 0] : j \in Takes} ELSE {}
      chunks == IF on("chunk") THEN {[k |-> "chunk", n |-> n, take |-> j, it |-> 0] : n \in Sizes, j \in Takes} ELSE {}
  IN plain("next") \cup plain("nextid") \cup chunks \cup sized("bnew") \cup taking("bnext") \cup plain("bdrop")
     \cup sized("foreach") \cup sized("eforeach") \cup sized("fold")
     \cup taking("values") \cup taking("idsvalues")
     \cup plain("skip") \cup plain("len") \cup plain("hasmore")
     \cup plain("clone") \cup taking("intoseq") \cup plain("drop")

(***************************************************************************)
(* Results, in the shape of the harness' Ret records                        *)
(***************************************************************************)
RNone == [k |-> "none"]
RUnit == [k |-> "unit"]
RItem(idx, p) == [k |-> "item", idx |-> idx, val |-> cf.base + p, pidx |-> -1]
\* chunk of a positions from b of which the caller consumes `take` (-1 = until the chunk says None)
RChunk(b, a, take) ==
  LET kk == IF take = -1 THEN a ELSE Min2(take, a) IN
  [k |-> "chunk", b |-> b, alen |-> a,
   vals |-> [j \in 1..kk |-> cf.base + b + (j - 1)],
   pidx |-> [j \in 1..kk |-> -1],
   lens |-> [j \in 1..(kk + 1) |-> a - (j - 1)],
   endnone |-> (take = -1 \/ take > a)]
RLen(v) == [k |-> "len", some |-> TRUE, v |-> v]
RHasMore(v) == IF v = 0 THEN [k |-> "hasmore", a |-> "no", v |-> 0]
               ELSE [k |-> "hasmore", a |-> "yes", v |-> v]
\* remainder from position c, of which the caller consumes `take`
RSeq(c, take) ==
  LET from == Min2(c, cf.len)
      a == cf.len - from
      kk == IF take = -1 THEN a ELSE Min2(take, a) IN
  [k |-> "seq", vals |-> [j \in 1..kk |-> cf.base + from + (j - 1)], full |-> (take = -1 \/ take > a)]

\* local computation after the fetch_add of a chunk pull (fetch_n / BufferedChunk::pull)
ChunkOf(b, n, take) ==
  LET lim == IF Mutant = "clamp_off_by_one" THEN cf.len - 1 ELSE cf.len IN
  IF b < lim /\ n > 0 THEN RChunk(b, Min2(n, cf.len - b), take) ELSE RNone     \* an empty run is reported as None
ItemOf(b, withIdx) == IF b < cf.len THEN RItem(IF withIdx THEN b ELSE -1, b) ELSE RNone
LenOf(c) == IF c < cf.len THEN cf.len - c ELSE 0

(***************************************************************************)
(* Ownership of the elements of a consumed vector / array (C08, C15).        *)
(* take_one moves one element out; a chunk (TakenSlice) owns its reserved    *)
(* positions: what the caller consumes is moved out, the rest is dropped     *)
(* with the chunk; Drop drops the positions from the counter to the end and  *)
(* (vector) frees the buffer; into_seq_iter moves the same positions into a  *)
(* new vector, of which the caller consumes a prefix and the rest is dropped.*)
(***************************************************************************)
OwnApplies == cf.kind \in {"vec", "array"}
OwnInit(c) == [slot |-> [p \in 0..(c.len - 1) |-> "in"],
               heap |-> IF c.kind = "vec" THEN 8 * c.len ELSE 0,
               expd |-> [t \in 0..c.nt |-> << >>]]
\* positions lo..hi-1 as a sequence
Span(lo, hi) == [j \in 1..(IF hi > lo THEN hi - lo ELSE 0) |-> lo + (j - 1)]
RECURSIVE DropAll(_, _, _)
DropAll(m, ps, j) == IF j > Len(ps) THEN m ELSE DropAll(MDropElem(m, cf.base + ps[j], TRUE), ps, j + 1)
\* thread t takes the positions `moved` and the machinery drops the positions `dropped` (sequences), iterator i
OwnStep(t, i, moved, dropped, freeBuf) ==
  IF ~OwnApplies THEN own' = own /\ UNCHANGED mon
  ELSE /\ own' = [own EXCEPT
                    !.slot = [p \in DOMAIN @ |-> IF p \in Range(moved) \cup Range(dropped) THEN "out" ELSE @[p]],
                    !.heap = IF freeBuf THEN 0 ELSE @,
                    !.expd[t] = @ \o [j \in 1..Len(dropped) |-> cf.base + dropped[j]]]
       /\ mon' = [mon EXCEPT ![i] = DropAll(@, dropped, 1)]
\* the same when the action also updates the monitor (visits): m is the monitor after those updates
OwnStepM(t, i, m, moved, dropped) ==
  IF ~OwnApplies THEN own' = own /\ mon' = [mon EXCEPT ![i] = m]
  ELSE /\ own' = [own EXCEPT
                    !.slot = [p \in DOMAIN @ |-> IF p \in Range(moved) \cup Range(dropped) THEN "out" ELSE @[p]],
                    !.expd[t] = @ \o [j \in 1..Len(dropped) |-> cf.base + dropped[j]]]
       /\ mon' = [mon EXCEPT ![i] = DropAll(m, dropped, 1)]

(***************************************************************************)
(* Actions                                                                  *)
(***************************************************************************)
Sched(t) == h' = IF t = 0 THEN h ELSE [h EXCEPT !.sched = Append(@, t)]

FirstPc(o) ==
  CASE o.k \in {"next", "nextid", "chunk", "bnext", "foreach", "eforeach", "fold"} -> "fa"
    [] o.k \in {"values", "idsvalues"} -> IF o.take = 0 THEN "ret" ELSE "fa"
    [] o.k \in {"len", "hasmore", "clone", "intoseq"} -> "ld"
    [] o.k = "drop" -> IF HasDrop THEN "ld2" ELSE "ret"
    [] o.k = "skip" -> "st"
    [] OTHER -> "ret"      \* bnew, bdrop

\* the part of a call that does not depend on the configured vocabulary (shared with TraceCounter)
CallBody(t, o) ==
  /\ pc[t] = "idle"
  /\ o.it \in alive
  /\ o.k = "bnext" => buf[t][o.it] > 0
  /\ LET n == IF o.k = "bnext" THEN buf[t][o.it] ELSE o.n IN
     /\ op' = [op EXCEPT ![t] = [o EXCEPT !.n = n]]
     /\ mon' = [mon EXCEPT ![o.it] = MCall(@, t, o.k, n)]
  /\ pc' = [pc EXCEPT ![t] = FirstPc(o)]
  /\ nops' = [nops EXCEPT ![t] = @ + 1]
  /\ left' = [left EXCEPT ![t] = o.take]
  /\ res' = [res EXCEPT ![t] = IF o.k = "fold" THEN [k |-> "fold", vals |-> << >>] ELSE RUnit]
  /\ buf' = [buf EXCEPT ![t][o.it] = IF o.k = "bnew" THEN o.n ELSE IF o.k = "bdrop" THEN 0 ELSE @]
  /\ h' = [h EXCEPT !.sched = IF t = 0 THEN @ ELSE Append(@, t), !.prog[t] = Append(@, o)]
  /\ UNCHANGED <<cf, counter, alive, tk, own>>

Call(t, o) ==
  /\ o \in Ops
  /\ IF t = 0
       THEN /\ nops[0] < OwnerOps
            /\ \A u \in Workers : pc[u] = "done"
       ELSE /\ nops[t] < MaxOps
            /\ o.k \notin OwnerOnly
  /\ t # 0 => (o.k = "bnew" => buf[t][o.it] = 0) /\ (o.k = "bdrop" => buf[t][o.it] > 0)
  /\ t = 0 => o.k \notin {"bnew", "bnext", "bdrop"}
  /\ o.k \in OwnerOnly => \A i \in Its : buf[0][i] = 0   \* borrows end before the iterator is consumed
  /\ IF t = 0
       THEN \E i \in alive : CallBody(t, [o EXCEPT !.it = i])    \* the owner works on any of its iterators / clones
       ELSE CallBody(t, o)

ReqSize(t) ==
  CASE op[t].k \in {"next", "nextid", "values", "idsvalues"} -> 1
    [] OTHER -> op[t].n   \* chunk, bnext, foreach/eforeach/fold (1 => single pulls, >1 => buffered pulls)

\* what the counter is advanced by: single pulls add 1 (fetch_and_increment); chunk reservations are capped at the
\* length of the source (fix 4404dbf of /repo), so that a huge request cannot wrap the counter
AddSize(t) ==
  IF op[t].k \in {"chunk", "bnext"} \/ (op[t].k \in {"foreach", "eforeach", "fold"} /\ op[t].n > 1)
    THEN Min2(ReqSize(t), cf.len) ELSE ReqSize(t)

\* visits of the positions b..b+a-1 by the closure of a composite op, in order
RECURSIVE VisitAll(_, _, _, _, _)
VisitAll(m, t, b, a, withIdx) ==
  IF a = 0 THEN m
  ELSE VisitAll(MVisit(m, t, IF withIdx THEN b ELSE -1, cf.base + b, -1), t, b + 1, a - 1, withIdx)

FetchAdd(t) ==
  /\ pc[t] = "fa"
  /\ LET n == ReqSize(t)
         i == op[t].it
         b == counter[i]
         k == op[t].k
     IN
     /\ counter' = [counter EXCEPT ![i] = Wrap(b + AddSize(t))]
     /\ tk' = [tk EXCEPT ![t] = b]
     /\ CASE k \in {"next", "nextid"} ->
               /\ res' = [res EXCEPT ![t] = ItemOf(b, k = "nextid")]
               /\ pc' = [pc EXCEPT ![t] = "ret"]
               /\ OwnStep(t, i, IF b < cf.len THEN <<b>> ELSE << >>, << >>, FALSE)
               /\ UNCHANGED left
          [] k \in {"chunk", "bnext"} ->
               LET r == ChunkOf(b, n, op[t].take)
                   a == IF r.k = "chunk" THEN r.alen ELSE 0
                   kk == IF r.k = "chunk" THEN Len(r.vals) ELSE 0 IN
               /\ res' = [res EXCEPT ![t] = r]
               /\ pc' = [pc EXCEPT ![t] = "ret"]
               /\ OwnStep(t, i, Span(b, b + kk), Span(b + kk, b + a), FALSE)
               /\ UNCHANGED left
          [] k \in {"foreach", "eforeach", "fold"} ->
               LET a == IF b < cf.len THEN Min2(n, cf.len - b) ELSE 0
                   stop == IF Mutant = "foreach_stops_short" THEN a < n ELSE a = 0
               IN
               /\ OwnStepM(t, i, VisitAll(mon[i], t, b, a, k = "eforeach"), Span(b, b + a), << >>)
               /\ pc' = [pc EXCEPT ![t] = IF stop THEN "ret" ELSE "fa"]
               /\ res' = [res EXCEPT ![t] =
                            IF k = "fold"
                            THEN [k |-> "fold", vals |-> @.vals \o [j \in 1..a |-> cf.base + b + (j - 1)]]
                            ELSE @]
               /\ UNCHANGED left
          [] k \in {"values", "idsvalues"} ->
               LET a == IF b < cf.len THEN 1 ELSE 0
                   l2 == IF left[t] > 0 THEN left[t] - 1 ELSE left[t]
               IN
               /\ OwnStepM(t, i, VisitAll(mon[i], t, b, a, k = "idsvalues"), Span(b, b + a), << >>)
               /\ left' = [left EXCEPT ![t] = l2]
               /\ pc' = [pc EXCEPT ![t] = IF a = 0 \/ l2 = 0 THEN "ret" ELSE "fa"]
               /\ UNCHANGED res
  /\ Sched(t)
  /\ UNCHANGED <<cf, alive, op, buf, nops>>

\* loads: length queries, Clone (SeqCst load into a fresh counter), into_seq_iter, Drop
Load(t) ==
  /\ pc[t] \in {"ld", "ld2"}
  /\ LET i == op[t].it
         c == counter[i]
         k == op[t].k
     IN
     /\ tk' = [tk EXCEPT ![t] = c]
     /\ CASE k = "len" ->
               /\ res' = [res EXCEPT ![t] = RLen(LenOf(c))]
               /\ pc' = [pc EXCEPT ![t] = "ret"]
               /\ UNCHANGED <<counter, alive, mon, buf, own>>
          [] k = "hasmore" ->
               /\ res' = [res EXCEPT ![t] = RHasMore(LenOf(c))]
               /\ pc' = [pc EXCEPT ![t] = "ret"]
               /\ UNCHANGED <<counter, alive, mon, buf, own>>
          [] k = "clone" ->
               LET new == Cardinality(Its)
                   c2 == IF Mutant = "clone_restarts" THEN 0 ELSE c IN
               /\ counter' = (new :> c2) @@ counter
               /\ alive' = alive \cup {new}
               /\ mon' = (new :> [mon[i] EXCEPT !.op = [u \in DOMAIN @ |-> ""]]) @@ mon
               /\ buf' = [u \in DOMAIN buf |-> (new :> 0) @@ buf[u]]
               /\ res' = [res EXCEPT ![t] = [k |-> "cloned", new |-> new]]
               /\ pc' = [pc EXCEPT ![t] = "ret"]
               /\ UNCHANGED own
          [] k = "intoseq" /\ pc[t] = "ld" ->
               /\ res' = [res EXCEPT ![t] = RSeq(c, op[t].take)]
               \* the vector's Drop runs at the end of into_seq_iter and loads the counter once more;
               \* the array forgets itself after handing out the remainder
               /\ pc' = [pc EXCEPT ![t] = IF cf.kind = "vec" THEN "ld2" ELSE "ret"]
               /\ alive' = alive \ {i}
               \* the remainder is moved into a vector of its own: the caller consumes a prefix, the rest is
               \* dropped with the sequential iterator; the array has no buffer, the vector frees it in Drop
               /\ LET from == Min2(c, cf.len)
                      kk == Len(RSeq(c, op[t].take).vals) IN
                  OwnStep(t, i, Span(from, from + kk), Span(from + kk, cf.len), FALSE)
               /\ UNCHANGED <<counter, buf>>
          [] OTHER ->       \* the load of Drop::drop (vec / array), also at the end of the vector's into_seq_iter
               /\ pc' = [pc EXCEPT ![t] = "ret"]
               /\ alive' = alive \ {i}
               /\ OwnStep(t, i, << >>, IF k = "drop" /\ c <= cf.len THEN Span(c, cf.len) ELSE << >>, TRUE)
               /\ UNCHANGED <<counter, buf, res>>
  /\ Sched(t)
  /\ UNCHANGED <<cf, op, left, nops>>

Store(t) ==
  /\ pc[t] = "st"
  /\ LET v == IF Mutant = "skip_len_minus_1" THEN Max2(SkipTo - 1, 0) ELSE SkipTo IN
     /\ counter' = [counter EXCEPT ![op[t].it] = v]
     /\ tk' = [tk EXCEPT ![t] = v]
  /\ pc' = [pc EXCEPT ![t] = "ret"]
  /\ Sched(t)
  /\ UNCHANGED <<cf, alive, op, left, res, buf, nops, mon, own>>

Ret(t) ==
  /\ pc[t] = "ret"
  /\ LET i == op[t].it IN
     /\ mon' = IF res[t].k = "cloned" THEN mon ELSE [mon EXCEPT ![i] = MRet(@, t, res[t])]
     /\ alive' = IF op[t].k = "drop" THEN alive \ {i} ELSE alive
  /\ pc' = [pc EXCEPT ![t] = "idle"]
  /\ own' = [own EXCEPT !.expd[t] = << >>]
  /\ Sched(t)
  /\ UNCHANGED <<cf, counter, op, tk, left, res, buf, nops>>

Stop(t) ==
  /\ pc[t] = "idle"
  /\ pc' = [pc EXCEPT ![t] = "done"]
  /\ UNCHANGED <<cf, counter, alive, op, tk, left, res, buf, nops, mon, own, h>>

Step(t) == (\E o \in Ops : Call(t, o)) \/ FetchAdd(t) \/ Load(t) \/ Store(t) \/ Ret(t)

InitWith(c) ==
  /\ cf = c
  /\ counter = (0 :> 0)
  /\ alive = {0}
  /\ pc = [t \in 0..c.nt |-> "idle"]
  /\ op = [t \in 0..c.nt |-> [k |-> "", n |-> 0, take |-> -1, it |-> 0]]
  /\ tk = [t \in 0..c.nt |-> 0]
  /\ left = [t \in 0..c.nt |-> -1]
  /\ res = [t \in 0..c.nt |-> RUnit]
  /\ buf = [t \in 0..c.nt |-> (0 :> 0)]
  /\ nops = [t \in 0..c.nt |-> 0]
  /\ mon = (0 :> MonInit(MonCfg(c)))
  /\ own = OwnInit(c)
  /\ h = [sched |-> << >>, prog |-> [t \in 0..c.nt |-> << >>]]

\* the same, as an action (start of the next recorded run in trace validation)
ResetWith(c) ==
  /\ cf' = c
  /\ counter' = (0 :> 0)
  /\ alive' = {0}
  /\ pc' = [t \in 0..c.nt |-> "idle"]
  /\ op' = [t \in 0..c.nt |-> [k |-> "", n |-> 0, take |-> -1, it |-> 0]]
  /\ tk' = [t \in 0..c.nt |-> 0]
  /\ left' = [t \in 0..c.nt |-> -1]
  /\ res' = [t \in 0..c.nt |-> RUnit]
  /\ buf' = [t \in 0..c.nt |-> (0 :> 0)]
  /\ nops' = [t \in 0..c.nt |-> 0]
  /\ mon' = (0 :> MonInit(MonCfg(c)))
  /\ own' = OwnInit(c)
  /\ h' = [sched |-> << >>, prog |-> [t \in 0..c.nt |-> << >>]]

Init == InitWith(CfgOfModel)

Next == \E t \in T : Step(t) \/ Stop(t)

Spec == Init /\ [][Next]_vars
FairSpec == Spec /\ \A t \in 1..NT : WF_vars(FetchAdd(t) \/ Load(t) \/ Store(t) \/ Ret(t))

(***************************************************************************)
(* Properties                                                               *)
(***************************************************************************)
Terminal == \A t \in T : pc[t] = "done"
AllFlags == UNION {mon[i].flags : i \in DOMAIN mon}
NoFlags == AllFlags = {}
HoldsAll(c) == \A i \in DOMAIN mon : Holds(mon[i], c)
Inv_C01 == HoldsAll("C01")
Inv_C02 == HoldsAll("C02")
Inv_C03 == HoldsAll("C03")
Inv_C04 == HoldsAll("C04")
Inv_C05 == HoldsAll("C05")
Inv_C06 == HoldsAll("C06")
Inv_C08 == HoldsAll("C08")
Inv_C10 == HoldsAll("C10")
Inv_C11 == HoldsAll("C11")
Inv_C12 == HoldsAll("C12")
Inv_C19 == HoldsAll("C19")
\* C08 / C15 on the model: when the consuming iterator is gone (and, known finding E, no skip_to_end was
\* called) every element has left the storage exactly once and the buffer has been released
Inv_OwnEnd == (OwnApplies /\ 0 \notin alive /\ ~mon[0].skipCalled /\ \A t \in T : pc[t] \in {"idle", "done"})
                => (\A p \in DOMAIN own.slot : own.slot[p] = "out" /\ mon[0].moves[p] + mon[0].drops[p] = 1) /\ own.heap = 0
\* No wrap-around under the precondition of C01/C05 (cumulative requests below the word size)
Inv_NoWrap == \A i \in Its : counter[i] < MOD \div 2
\* C09, known-size kinds: a call in flight can always take its next step on its own, whatever the
\* other threads do or do not do (no action of a thread in flight is ever disabled), so a peer
\* frozen at an arbitrary point cannot block it; together with the bound on the number of steps of
\* a call (Live_C09 under fairness of the thread's own steps only) this is the lock-free claim.
InFlight(t) == pc[t] \in {"fa", "ld", "ld2", "st", "ret"}
Inv_C09_LockFree == \A t \in T : InFlight(t) => ENABLED Step(t)
Live_C09 == \A t \in 1..NT : InFlight(t) ~> ~InFlight(t)


\* counterexample export: the violating behaviour's programs and schedule, for replay on the real crate
Cex(P) == P \/ (PrintT(<<"CEX", ToJson(h)>>) /\ FALSE)
NoFlagsX == Cex(NoFlags)
SpecGen == Spec

\* export of a complete behaviour (schedule + programs) for replay on the real crate
GenEmit == Terminal => PrintT(<<"SCN", ToJson(h)>>)
=============================================================================
