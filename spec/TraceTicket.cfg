SPECIFICATION TSpec
CONSTANTS
  NT = 0
  SrcLen = 0
  Hint = "exact"
  PanicAt = 0
  Revive = 0
  MaxOps = 0
  OwnerOps = 0
  Sizes = {1}
  TakeSet = {9}
  OpKinds = {}
  MOD = 1048576
  FixA = TRUE
  FixH = TRUE
  OrdCurrent = "Acquire"
  Scenario = ""
  Mutant = ""
CONSTRAINT Publish
POSTCONDITION Accepted
CHECK_DEADLOCK FALSE
