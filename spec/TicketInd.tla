------------------------------ MODULE TicketInd ------------------------------
(***************************************************************************)
(* Inductive invariant for the ticket protocol of the arbitrary-Iterator     *)
(* wrapper (ConIterOfIter), checked with Apalache: unbounded in the number   *)
(* of calls, in the values of the two counters and in the length of the      *)
(* source, for a fixed small number of threads.  Abstraction of module       *)
(* Ticket (same steps, fewer program counters):                              *)
(*   Reserve  counter.fetch_add(n); the `completed` check that follows it    *)
(*   Enter    the load of `yielded` that equals the ticket                   *)
(*   GiveUp   a waiter that sees `completed`                                 *)
(*   Pull     one next() of the wrapped iterator inside the critical section *)
(*   PullNone next() returned None: completed.store(true)                    *)
(*   Publish  yielded.fetch_add(n)                                           *)
(*   Skip     skip_to_end: completed.store(true)                             *)
(* Properties (Safe): mutual exclusion of the critical section (C07) and     *)
(* index fidelity (C02): the i-th item pulled under ticket b is the element  *)
(* at source position b + i; hence no position is delivered twice (C01).     *)
(*   Init => IndInv ;  IndInv /\ Next => IndInv' ;  IndInv => Safe           *)
(***************************************************************************)
EXTENDS Integers, FiniteSets, Apalache

CONSTANTS
  \* @type: Set(Str);
  Thread,
  \* @type: Int;
  MaxReq

VARIABLES
  \* @type: Int;
  counter,
  \* @type: Int;
  yielded,
  \* @type: Bool;
  completed,
  \* @type: Bool;
  exhausted,
  \* @type: Int;
  taken,
  \* @type: Str -> Str;
  pc,
  \* @type: Str -> Int;
  beg,
  \* @type: Str -> Int;
  req,
  \* @type: Str -> Int;
  got,
  \* @type: Bool;
  fidelity

ConstInit == Thread = {"t1", "t2", "t3"} /\ MaxReq = 5

Init ==
  /\ counter = 0 /\ yielded = 0 /\ completed = FALSE /\ exhausted = FALSE /\ taken = 0
  /\ pc = [t \in Thread |-> "idle"]
  /\ beg = [t \in Thread |-> 0]
  /\ req = [t \in Thread |-> 1]
  /\ got = [t \in Thread |-> 0]
  /\ fidelity = TRUE

Active(t) == pc[t] \in {"wait", "cs"}

Reserve(t) ==
  \E n \in 1..MaxReq :
    /\ pc[t] = "idle"
    /\ counter' = counter + n
    /\ beg' = [beg EXCEPT ![t] = counter]
    /\ req' = [req EXCEPT ![t] = n]
    /\ got' = [got EXCEPT ![t] = 0]
    \* the check of `completed` right after the reservation: the ticket is abandoned (a hole)
    /\ pc' = [pc EXCEPT ![t] = IF completed THEN "idle" ELSE "wait"]
    /\ UNCHANGED <<yielded, completed, exhausted, taken, fidelity>>

Enter(t) ==
  /\ pc[t] = "wait" /\ yielded = beg[t]
  /\ pc' = [pc EXCEPT ![t] = "cs"]
  /\ UNCHANGED <<counter, yielded, completed, exhausted, taken, beg, req, got, fidelity>>

GiveUp(t) ==
  /\ pc[t] = "wait" /\ completed
  /\ pc' = [pc EXCEPT ![t] = "idle"]
  /\ UNCHANGED <<counter, yielded, completed, exhausted, taken, beg, req, got, fidelity>>

\* the item at source position `taken` is reported with index beg[t] + got[t]
Pull(t) ==
  /\ pc[t] = "cs" /\ got[t] < req[t] /\ ~exhausted
  /\ fidelity' = (fidelity /\ taken = beg[t] + got[t])
  /\ taken' = taken + 1
  /\ got' = [got EXCEPT ![t] = @ + 1]
  /\ UNCHANGED <<counter, yielded, completed, exhausted, pc, beg, req>>

PullNone(t) ==
  /\ pc[t] = "cs" /\ got[t] < req[t]
  /\ exhausted' = TRUE /\ completed' = TRUE
  /\ UNCHANGED <<counter, yielded, taken, pc, beg, req, got, fidelity>>

Publish(t) ==
  /\ pc[t] = "cs" /\ (got[t] = req[t] \/ exhausted)
  /\ yielded' = yielded + req[t]
  /\ pc' = [pc EXCEPT ![t] = "idle"]
  /\ UNCHANGED <<counter, completed, exhausted, taken, beg, req, got, fidelity>>

Skip ==
  /\ completed' = TRUE
  /\ UNCHANGED <<counter, yielded, exhausted, taken, pc, beg, req, got, fidelity>>

Next ==
  \/ \E t \in Thread : Reserve(t) \/ Enter(t) \/ GiveUp(t) \/ Pull(t) \/ PullNone(t) \/ Publish(t)
  \/ Skip

Safe ==
  /\ \A t \in Thread, u \in Thread : (pc[t] = "cs" /\ pc[u] = "cs") => t = u        \* C07
  /\ fidelity                                                                        \* C02 (and C01)

Disjoint(t, u) == beg[t] + req[t] <= beg[u] \/ beg[u] + req[u] <= beg[t]

IndInv ==
  /\ counter >= 0 /\ yielded >= 0 /\ taken >= 0 /\ yielded <= counter
  /\ \A t \in Thread : /\ pc[t] \in {"idle", "wait", "cs"}
                       /\ req[t] >= 1 /\ req[t] <= MaxReq /\ got[t] >= 0 /\ got[t] <= req[t] /\ beg[t] >= 0
  \* live tickets lie between the two counters and do not overlap
  /\ \A t \in Thread : Active(t) => (yielded <= beg[t] /\ beg[t] + req[t] <= counter)
  /\ \A t \in Thread, u \in Thread : (t # u /\ Active(t) /\ Active(u)) => Disjoint(t, u)
  \* the holder of the critical section is the owner of the ticket `yielded`
  /\ \A t \in Thread : pc[t] = "cs" => beg[t] = yielded
  /\ \A t \in Thread : pc[t] = "wait" => got[t] = 0
  \* the cursor of the wrapped iterator is the published count plus what the holder has pulled
  /\ ~exhausted => \/ \E t \in Thread : pc[t] = "cs" /\ taken = yielded + got[t]
                   \/ (\A t \in Thread : pc[t] # "cs") /\ taken = yielded
  /\ exhausted => completed
  /\ fidelity

IndInit ==
  /\ counter = Gen(1) /\ yielded = Gen(1) /\ completed = Gen(1) /\ exhausted = Gen(1) /\ taken = Gen(1)
  /\ pc = Gen(3) /\ beg = Gen(3) /\ req = Gen(3) /\ got = Gen(3) /\ fidelity = Gen(1)
  /\ DOMAIN pc = Thread /\ DOMAIN beg = Thread /\ DOMAIN req = Thread /\ DOMAIN got = Thread
  /\ IndInv
=============================================================================
