------------------------------- MODULE Ticket -------------------------------
(***************************************************************************)
(* Implementation-level model of ConIterOfIter (a concurrent iterator that   *)
(* wraps an arbitrary sequential Iterator) and of its BufferIter.            *)
(*                                                                         *)
(* Shared state: reserved (ticket dispenser), yielded (now serving),         *)
(* completed (flag), and the wrapped iterator in an UnsafeCell, of which the *)
(* model keeps `taken` = number of items consumed from it.  A pull is        *)
(*                                                                         *)
(*   tk = reserved.fetch_add(n)                                             *)
(*   loop { y = yielded.load();  tk = y -> critical section                  *)
(*                               tk < y -> None                              *)
(*                               tk > y -> if completed.load() { None } }    *)
(*   critical section: wrapped next() 1..n times                             *)
(*   single  : Some -> yielded.fetch_add(1) | None -> completed.store(true)  *)
(*   one-shot: (empty -> completed.store(true)); yielded.fetch_add(n)        *)
(*   buffered: yielded.fetch_add(n)                                          *)
(*                                                                         *)
(* One action per scheduling point of the conformance harness: call          *)
(* boundary, each atomic operation, entry and exit of the wrapped next(),    *)
(* return boundary.  Each atomic action carries its memory ordering (a       *)
(* constant here) into the happens-before monitor of module HB.              *)
(*                                                                         *)
(* Poll reduction: a waiter that has loaded a location is not scheduled to   *)
(* load it again before somebody has written (polled); this removes only     *)
(* stuttering re-polls, keeps the state graph acyclic, and turns "a call     *)
(* never returns under a fair scheduler" into DEADLOCK of this model.  The   *)
(* harness' scheduler applies the identical rule, so a hang of the real      *)
(* code is observed as the same state rather than as a timeout.              *)
(*                                                                         *)
(* Behaviour switches (constants) select the transitions of the tree as it   *)
(* is: FixA (skip_to_end does not poison the ticket dispenser; pulls check   *)
(* `completed` after taking their ticket), FixH (a panic inside the critical *)
(* section sets `completed`), OrdCurrent (ordering of AtomicCounter::current)*)
(***************************************************************************)
EXTENDS Props, HB, TLC, Json

CONSTANTS
  NT, SrcLen, Hint,      \* workers, items the wrapped iterator yields, "exact" | "inexact" | "unbounded"
  PanicAt,               \* the wrapped iterator panics in its PanicAt-th call (0 = never)
  Revive,                \* non-fused source: items it yields after its first None (0 = fused)
  MaxOps, OwnerOps, Sizes, TakeSet, OpKinds, MOD,
  FixA, FixH,            \* BOOLEAN
  OrdCurrent,            \* "Relaxed" (1.22.1) | "Acquire"
  Scenario,              \* "" = every thread picks its operations freely; otherwise the name of a fixed set of programs
  Mutant

VARIABLES
  cf,          \* run configuration
  reserved, yielded, completed,
  taken,       \* items consumed from the wrapped iterator (late items of a non-fused source included)
  noneSeen,    \* the wrapped iterator has returned None at least once
  calls,       \* calls of the wrapped next() so far
  alive,       \* the concurrent iterator has not been consumed
  pc, op, tk, got, polled, left, res, buf, nops,
  mon,         \* Props monitor
  hb,          \* HB monitor
  own,         \* owning elements: [slots: per thread, the Option slots of its buffered iterator (position or -1),
               \*                   expd: per thread, the destructor runs predicted for the step in progress (ids)]
  h

vars == <<cf, reserved, yielded, completed, taken, noneSeen, calls, alive, pc, op, tk, got, polled, left, res, buf, nops, mon, hb, own, h>>
view == <<cf, reserved, yielded, completed, taken, noneSeen, calls, alive, pc, op, tk, got, polled, left, res, buf, nops, mon, hb, own>>

Workers == 1..cf.nt
T == 0..cf.nt
MAXW == MOD - 1
Wrap(x) == IF x >= MOD THEN x - MOD ELSE x
Takes == {IF j = 9 THEN -1 ELSE j : j \in TakeSet}
OwnerOnly == {"intoseq", "drop"}

CfgOfModel == [len |-> SrcLen, nt |-> NT, hint |-> Hint, base |-> 100, consuming |-> TRUE,
               clones |-> FALSE, panicAt |-> PanicAt, revive |-> Revive, kind |-> "iter"]
MonCfg(c) == [len |-> c.len, base |-> c.base, fam |-> "ticket", hint |-> c.hint,
              consuming |-> c.consuming, clones |-> c.clones, nthreads |-> c.nt, extra |-> c.revive, faults |-> c.panicAt, kind |-> c.kind]

Ops ==
  LET on(k) == k \in OpKinds
      sized(k) == IF on(k) THEN {[k |-> k, n |-> n, take |-> -1, fin |-> FALSE] : n \in Sizes} ELSE {}
      plain(k) == IF on(k) THEN {[k |-> k, n |-> 0, take |-> -1, fin |-> FALSE]} ELSE {}
      taking(k) == IF on(k) THEN UNION {{[k |-> k, n |-> 0, take |-> j, fin |-> f] : f \in (IF k = "bnext" /\ j # -1 THEN BOOLEAN ELSE {FALSE})} : j \in Takes} ELSE {}
      chunks == IF on("chunk") THEN {[k |-> "chunk", n |-> n, take |-> j, fin |-> FALSE] : n \in Sizes, j \in Takes} ELSE {}
  IN plain("next") \cup plain("nextid") \cup chunks \cup sized("bnew") \cup taking("bnext") \cup plain("bdrop")
     \cup sized("foreach") \cup sized("eforeach") \cup sized("fold")
     \cup taking("values") \cup taking("idsvalues")
     \cup plain("skip") \cup plain("len") \cup plain("hasmore")
     \cup taking("intoseq") \cup plain("drop")

\* Fixed per-thread programs (three-party situations whose every interleaving is exported for replay)
O(k, n, take) == [k |-> k, n |-> n, take |-> take, fin |-> FALSE]
ScenarioProg ==
  CASE Scenario = "tri_buf_skip" -> <<  <<O("bnew", 3, -1), O("bnext", 0, -1)>>, <<O("nextid", 0, -1)>>, <<O("skip", 0, -1)>> >>
    [] Scenario = "tri_chunk_skip" -> << <<O("chunk", 3, -1)>>, <<O("chunk", 2, -1)>>, <<O("skip", 0, -1)>> >>
    [] Scenario = "tri_query" -> <<  <<O("chunk", 1, -1)>>, <<O("chunk", 4, -1)>>, <<O("len", 0, -1), O("len", 0, -1)>> >>
    [] Scenario = "tri_hasmore" -> << <<O("next", 0, -1)>>, <<O("bnew", 4, -1), O("bnext", 0, -1)>>, <<O("hasmore", 0, -1), O("hasmore", 0, -1)>> >>
    [] OTHER -> << >>

(***************************************************************************)
(* Results (shape of the harness' Ret records)                              *)
(***************************************************************************)
RNone == [k |-> "none"]
RUnit == [k |-> "unit"]
RPanic(probe) == [k |-> "panic", probe |-> probe]
RItem(idx, p) == [k |-> "item", idx |-> idx, val |-> cf.base + p, pidx |-> -1]
RChunk(b, ps, take) ==
  LET a == Len(ps)
      kk == IF take = -1 THEN a ELSE Min2(take, a) IN
  [k |-> "chunk", b |-> b, alen |-> a,
   vals |-> [j \in 1..kk |-> cf.base + ps[j]],
   pidx |-> [j \in 1..kk |-> -1],
   lens |-> [j \in 1..(kk + 1) |-> a - (j - 1)],
   endnone |-> (take = -1 \/ take > a)]
RLen(some, v) == [k |-> "len", some |-> some, v |-> v]
RHasMore(some, v) == IF ~some THEN [k |-> "hasmore", a |-> "maybe", v |-> 0]
                     ELSE IF v = 0 THEN [k |-> "hasmore", a |-> "no", v |-> 0]
                     ELSE [k |-> "hasmore", a |-> "yes", v |-> v]

(***************************************************************************)
(* Helpers                                                                  *)
(***************************************************************************)
Sched(t) == h' = IF t = 0 THEN h ELSE [h EXCEPT !.sched = Append(@, t)]
ClearPolled == polled' = [u \in DOMAIN polled |-> {}]

(***************************************************************************)
(* Ownership of the elements of an owning wrapped iterator (C08, C15).       *)
(* An element is inside the wrapped iterator (positions >= taken), in a slot *)
(* of some thread's buffered iterator, with a caller, or destroyed.  The     *)
(* machinery destroys elements at exactly these points: a buffered pull      *)
(* overwrites a slot that still holds a leftover of an earlier chunk; the    *)
(* rest of a one-shot chunk dies with the chunk; a client may discard the    *)
(* rest of a buffered chunk through the chunk iterator (fin); a buffered     *)
(* iterator is dropped with its leftovers; items collected by a pull whose   *)
(* wrapped next() panics die while it unwinds; the wrapped iterator is       *)
(* dropped with everything it has not yielded.  expd[t] lists the predicted  *)
(* destructor runs of the step in progress, in order; TraceTicket matches    *)
(* every DropElem event of the real run against it.                          *)
(***************************************************************************)
OwnApplies == cf.kind \in {"iter", "iter_h"}
OwnInit(c) == [slots |-> [t \in 0..c.nt |-> << >>], expd |-> [t \in 0..c.nt |-> << >>]]
Span(lo, hi) == [j \in 1..(IF hi > lo THEN hi - lo ELSE 0) |-> lo + (j - 1)]
Leftovers(sl) == SelectSeq(sl, LAMBDA x : x # -1)
Ids(ps) == [j \in 1..Len(ps) |-> cf.base + ps[j]]
RECURSIVE DropAll(_, _, _)
DropAll(m, ps, j) == IF j > Len(ps) THEN m ELSE DropAll(MDropElem(m, cf.base + ps[j], TRUE), ps, j + 1)
\* thread t: the machinery destroys the positions `dropped` (in this order), t's slots become sl
OwnUpd(t, sl, dropped) ==
  IF ~OwnApplies THEN own' = own
  ELSE own' = [own EXCEPT !.slots[t] = sl, !.expd[t] = @ \o Ids(dropped)]
MonDrop(m, dropped) == IF OwnApplies THEN DropAll(m, dropped, 1) ELSE m
\* what is still inside the wrapped iterator (late items of a non-fused source are made on demand: never dropped)
InSource(from) == Span(from, cf.len)

PullKind(t) ==
  CASE op[t].k \in {"next", "nextid", "values", "idsvalues"} -> "s"
    [] op[t].k \in {"foreach", "eforeach", "fold"} -> IF op[t].n = 1 THEN "s" ELSE "b"
    [] op[t].k = "chunk" -> "o"
    [] OTHER -> "b"
Want(t) == IF PullKind(t) = "s" THEN 1 ELSE op[t].n
\* the wrapped iterator has an item: a regular one, or (non-fused source) a late one after its first None
HasItem == taken < cf.len \/ (noneSeen /\ taken < cf.len + cf.revive)
StartPc == "res"

RECURSIVE VisitSeq(_, _, _, _, _, _)
VisitSeq(m, t, b, ps, j, withIdx) ==
  IF j > Len(ps) THEN m
  ELSE VisitSeq(MVisit(m, t, IF withIdx THEN b + (j - 1) ELSE -1, cf.base + ps[j], -1), t, b, ps, j + 1, withIdx)

\* end of one internal pull of thread t with the positions ps (<<>> = the pull observed the end),
\* reported from index b.  Sets pc, res, mon, left.
EndPullD(t, b, ps, dropped) ==
  LET k == op[t].k
      a == Len(ps)
  IN CASE k \in {"next", "nextid"} ->
            /\ res' = [res EXCEPT ![t] = IF a = 0 THEN RNone ELSE RItem(IF k = "nextid" THEN b ELSE -1, ps[1])]
            /\ pc' = [pc EXCEPT ![t] = "ret"]
            /\ UNCHANGED <<mon, left>>
       [] k \in {"chunk", "bnext"} ->
            /\ res' = [res EXCEPT ![t] = IF a = 0 THEN RNone ELSE RChunk(b, ps, op[t].take)]
            /\ pc' = [pc EXCEPT ![t] = "ret"]
            /\ mon' = MonDrop(mon, dropped)
            /\ UNCHANGED left
       [] k \in {"foreach", "eforeach", "fold"} ->
            /\ mon' = VisitSeq(mon, t, b, ps, 1, k = "eforeach")
            /\ pc' = [pc EXCEPT ![t] = IF a = 0 THEN "ret" ELSE StartPc]
            /\ res' = [res EXCEPT ![t] = IF k = "fold"
                                         THEN [k |-> "fold", vals |-> @.vals \o [j \in 1..a |-> cf.base + ps[j]]]
                                         ELSE @]
            /\ UNCHANGED left
       [] OTHER ->   \* values / idsvalues
            LET l2 == IF left[t] > 0 THEN left[t] - 1 ELSE left[t] IN
            /\ mon' = VisitSeq(mon, t, b, ps, 1, k = "idsvalues")
            /\ left' = [left EXCEPT ![t] = l2]
            /\ pc' = [pc EXCEPT ![t] = IF a = 0 \/ l2 = 0 THEN "ret" ELSE StartPc]
            /\ UNCHANGED res

EndPull(t, b, ps) == EndPullD(t, b, ps, << >>)

(***************************************************************************)
(* Actions                                                                  *)
(***************************************************************************)
FirstPc(o) ==
  CASE o.k = "chunk" /\ o.n = 0 -> "ret"       \* a request for nothing returns None without touching shared state
    [] o.k \in {"next", "nextid", "chunk", "bnext", "foreach", "eforeach", "fold"} -> StartPc
    [] o.k \in {"values", "idsvalues"} -> IF o.take = 0 THEN "ret" ELSE StartPc
    [] o.k \in {"len", "hasmore"} -> "ldc"
    [] o.k = "skip" -> IF FixA THEN "stc" ELSE "str"
    [] o.k = "intoseq" -> IF o.take = 0 THEN "ret" ELSE "senter"
    [] OTHER -> "ret"      \* bnew, bdrop, drop

CallBody(t, o) ==
  /\ pc[t] = "idle" /\ alive
  /\ o.k = "bnext" => buf[t] > 0
  /\ LET n == IF o.k = "bnext" THEN buf[t] ELSE o.n IN
     /\ op' = [op EXCEPT ![t] = [o EXCEPT !.n = n]]
  /\ pc' = [pc EXCEPT ![t] = FirstPc(o)]
  /\ nops' = [nops EXCEPT ![t] = @ + 1]
  /\ left' = [left EXCEPT ![t] = o.take]
  /\ got' = [got EXCEPT ![t] = << >>]
  /\ res' = [res EXCEPT ![t] = IF o.k = "fold" THEN [k |-> "fold", vals |-> << >>]
                               ELSE IF o.k = "chunk" /\ o.n = 0 THEN RNone
                               ELSE IF o.k = "intoseq" THEN [k |-> "seq", vals |-> << >>, full |-> FALSE]
                               ELSE RUnit]
  /\ buf' = [buf EXCEPT ![t] = IF o.k = "bnew" THEN o.n ELSE IF o.k = "bdrop" THEN 0 ELSE @]
  /\ alive' = (alive /\ o.k \notin OwnerOnly)
  /\ h' = [h EXCEPT !.sched = IF t = 0 THEN @ ELSE Append(@, t), !.prog[t] = Append(@, o)]
  \* a new buffered iterator replaces (drops) the thread's previous one; bdrop drops it; dropping the concurrent
  \* iterator, or converting it back without taking anything, drops what the wrapped iterator has not yielded
  /\ LET gone == CASE o.k \in {"bnew", "bdrop"} -> Leftovers(own.slots[t])
                    [] o.k = "drop" \/ (o.k = "intoseq" /\ o.take = 0) -> InSource(taken)
                    [] OTHER -> << >>
         sl == CASE o.k = "bnew" -> [j \in 1..o.n |-> -1]
                 [] o.k = "bdrop" -> << >>
                 [] OTHER -> own.slots[t]
     IN OwnUpd(t, sl, gone) /\ mon' = MonDrop(MCall(mon, t, o.k, IF o.k = "bnext" THEN buf[t] ELSE o.n), gone)
  /\ UNCHANGED <<cf, reserved, yielded, completed, taken, noneSeen, calls, tk, polled, hb>>

Call(t, o) ==
  /\ IF Scenario = "" \/ t = 0 THEN o \in Ops
     ELSE /\ t <= Len(ScenarioProg) /\ nops[t] < Len(ScenarioProg[t])
          /\ o = ScenarioProg[t][nops[t] + 1]
  /\ IF t = 0
       THEN /\ nops[0] < OwnerOps
            /\ \A u \in Workers : pc[u] = "done"
       ELSE /\ nops[t] < MaxOps
            /\ o.k \notin OwnerOnly
  /\ o.k = "bnew" => buf[t] = 0
  /\ o.k = "bdrop" => buf[t] > 0
  /\ o.k \in OwnerOnly => buf[0] = 0
  /\ CallBody(t, o)

\* [FixA] having taken its ticket, the pull looks at `completed` and reports the end if it is set
Chk(t) ==
  /\ pc[t] = "chk"
  /\ hb' = HbLoad(hb, t, "c", "SeqCst")
  /\ IF completed
       THEN EndPull(t, 0, << >>)
       ELSE pc' = [pc EXCEPT ![t] = "ly"] /\ UNCHANGED <<res, mon, left>>
  /\ Sched(t)
  /\ UNCHANGED <<own, cf, reserved, yielded, completed, taken, noneSeen, calls, alive, op, tk, got, polled, buf, nops>>

Reserve(t) ==
  /\ pc[t] = "res"
  /\ tk' = [tk EXCEPT ![t] = reserved]
  /\ reserved' = Wrap(reserved + Want(t))
  /\ got' = [got EXCEPT ![t] = << >>]
  /\ pc' = [pc EXCEPT ![t] = IF FixA THEN "chk" ELSE "ly"]
  /\ hb' = HbRmw(hb, t, "r", "AcqRel")
  /\ ClearPolled
  /\ Sched(t)
  /\ UNCHANGED <<own, cf, yielded, completed, taken, noneSeen, calls, alive, op, left, res, buf, nops, mon>>

LoadY(t) ==
  /\ pc[t] = "ly" /\ "y" \notin polled[t]
  /\ hb' = HbLoad(hb, t, "y", OrdCurrent)
  /\ polled' = [polled EXCEPT ![t] = @ \cup {"y"}]
  /\ LET serve == IF Mutant = "serve_less" THEN tk[t] <= yielded ELSE tk[t] = yielded IN
     IF serve
       THEN /\ pc' = [pc EXCEPT ![t] = "enter"]
            /\ UNCHANGED <<res, mon, left>>
     ELSE IF tk[t] < yielded
       THEN EndPull(t, 0, << >>)
     ELSE /\ pc' = [pc EXCEPT ![t] = "lc"]
          /\ UNCHANGED <<res, mon, left>>
  /\ Sched(t)
  /\ UNCHANGED <<own, cf, reserved, yielded, completed, taken, noneSeen, calls, alive, op, tk, got, buf, nops>>

LoadC(t) ==
  /\ pc[t] = "lc" /\ "c" \notin polled[t]
  /\ hb' = HbLoad(hb, t, "c", "Relaxed")
  /\ polled' = [polled EXCEPT ![t] = @ \cup {"c"}]
  /\ IF completed
       THEN EndPull(t, 0, << >>)
       ELSE pc' = [pc EXCEPT ![t] = "ly"] /\ UNCHANGED <<res, mon, left>>
  /\ Sched(t)
  /\ UNCHANGED <<own, cf, reserved, yielded, completed, taken, noneSeen, calls, alive, op, tk, got, buf, nops>>

Enter(t) ==
  /\ pc[t] = "enter"
  /\ mon' = MNextEnter(mon, t)
  /\ hb' = HbAccess(hb, t)
  /\ pc' = [pc EXCEPT ![t] = "exit"]
  /\ Sched(t)
  /\ UNCHANGED <<own, cf, reserved, yielded, completed, taken, noneSeen, calls, alive, op, tk, got, polled, left, res, buf, nops>>

Exit(t) ==
  /\ pc[t] = "exit"
  /\ calls' = calls + 1
  /\ IF calls + 1 = cf.panicAt
       THEN /\ res' = [res EXCEPT ![t] = RPanic(TRUE)]
            /\ pc' = [pc EXCEPT ![t] = IF FixH THEN "pguard" ELSE "ret"]
            \* the items the pull had collected die while it unwinds (one-shot: its vector; for_each / fold: their
            \* own buffered iterator); a buffered iterator of the client keeps what was written into its slots
            /\ LET lost == IF PullKind(t) = "o" \/ (PullKind(t) = "b" /\ op[t].k # "bnext") THEN got[t] ELSE << >> IN
               OwnUpd(t, own.slots[t], lost) /\ mon' = MonDrop(MNextExit(mon, t), lost)
            /\ UNCHANGED <<taken, got, noneSeen>>
     ELSE IF HasItem
       THEN LET g == Append(got[t], taken)
                i == Len(g)
                bn == op[t].k = "bnext" /\ OwnApplies
                old == IF bn /\ i <= Len(own.slots[t]) /\ own.slots[t][i] # -1 /\ Mutant # "overwrite_forgets"
                         THEN <<own.slots[t][i]>> ELSE << >> IN
            /\ taken' = taken + 1
            /\ got' = [got EXCEPT ![t] = g]
            /\ pc' = [pc EXCEPT ![t] = IF Len(g) = Want(t) THEN "pub" ELSE "enter"]
            \* values[i] = Some(x): a leftover of an earlier chunk in that slot is destroyed
            /\ OwnUpd(t, IF bn /\ i <= Len(own.slots[t]) THEN [own.slots[t] EXCEPT ![i] = taken] ELSE own.slots[t], old)
            /\ mon' = MonDrop(MNextExit(mon, t), old)
            /\ UNCHANGED <<res, noneSeen>>
     ELSE \* None: whatever the kind of pull, the iteration is marked as completed before the turn is passed on
          /\ pc' = [pc EXCEPT ![t] = IF Mutant = "short_chunk_no_completed" /\ PullKind(t) # "s"
                                            /\ (PullKind(t) = "b" \/ got[t] # << >>)
                                         THEN "pub" ELSE "setc"]
          /\ noneSeen' = TRUE
          /\ mon' = MNextExit(mon, t)
          /\ UNCHANGED <<taken, got, res, own>>
  /\ Sched(t)
  /\ UNCHANGED <<cf, reserved, yielded, completed, alive, op, tk, polled, left, buf, nops, hb>>

SetC(t) ==
  /\ pc[t] = "setc"
  /\ completed' = TRUE
  /\ hb' = HbStore(hb, t, "c", "SeqCst")
  /\ ClearPolled
  /\ IF PullKind(t) = "s"
       THEN EndPull(t, tk[t], << >>)
       ELSE pc' = [pc EXCEPT ![t] = "pub"] /\ UNCHANGED <<res, mon, left>>
  /\ Sched(t)
  /\ UNCHANGED <<own, cf, reserved, yielded, taken, noneSeen, calls, alive, op, tk, got, buf, nops>>

\* [FixH] unwinding out of the critical section marks the iteration as completed
PGuard(t) ==
  /\ pc[t] = "pguard"
  /\ completed' = TRUE
  /\ hb' = HbStore(hb, t, "c", "SeqCst")
  /\ ClearPolled
  /\ pc' = [pc EXCEPT ![t] = "ret"]
  /\ Sched(t)
  /\ UNCHANGED <<own, cf, reserved, yielded, taken, noneSeen, calls, alive, op, tk, got, left, res, buf, nops, mon>>

Pub(t) ==
  /\ pc[t] = "pub"
  /\ LET inc == IF PullKind(t) = "s" THEN 1
                ELSE IF Mutant = "publish_actual" THEN Len(got[t]) ELSE Want(t) IN
     yielded' = Wrap(yielded + inc)
  /\ hb' = HbRmw(hb, t, "y", "AcqRel")
  /\ ClearPolled
  /\ IF PullKind(t) # "s" /\ yielded # tk[t]
       THEN /\ res' = [res EXCEPT ![t] = RPanic(FALSE)]     \* assert_eq!(older_count, begin_idx)
            /\ pc' = [pc EXCEPT ![t] = "ret"]
            /\ UNCHANGED <<mon, left, own>>
       ELSE LET a == Len(got[t])
                kk == IF op[t].take = -1 THEN a ELSE Min2(op[t].take, a)
                rest == SubSeq(got[t], kk + 1, a)
                chunky == op[t].k \in {"chunk", "bnext"}
                \* one-shot: the rest dies with the chunk; buffered: it stays in the slots unless the client discards it
                dies == IF op[t].k = "chunk" \/ (op[t].k = "bnext" /\ op[t].fin) THEN rest ELSE << >>
                sl == IF op[t].k = "bnext" /\ OwnApplies
                        THEN [j \in 1..Len(own.slots[t]) |-> IF j <= kk \/ (j <= a /\ op[t].fin) THEN -1 ELSE own.slots[t][j]]
                        ELSE own.slots[t]
            IN EndPullD(t, tk[t], got[t], IF chunky THEN dies ELSE << >>)
               /\ OwnUpd(t, sl, IF chunky THEN dies ELSE << >>)
  /\ Sched(t)
  /\ UNCHANGED <<cf, reserved, completed, taken, noneSeen, calls, alive, op, tk, got, buf, nops>>

\* try_get_len: completed.load(SeqCst), then (exact size hint only) reserved.current()
LenLoadC(t) ==
  /\ pc[t] = "ldc"
  /\ hb' = HbLoad(hb, t, "c", "SeqCst")
  /\ LET hm == op[t].k = "hasmore" IN
     IF completed
       THEN /\ res' = [res EXCEPT ![t] = IF hm THEN RHasMore(TRUE, 0) ELSE RLen(TRUE, 0)]
            /\ pc' = [pc EXCEPT ![t] = "ret"]
     ELSE IF cf.hint = "exact"
       THEN pc' = [pc EXCEPT ![t] = "ldr"] /\ UNCHANGED res
     ELSE /\ res' = [res EXCEPT ![t] = IF hm THEN RHasMore(FALSE, 0) ELSE RLen(FALSE, 0)]
          /\ pc' = [pc EXCEPT ![t] = "ret"]
  /\ Sched(t)
  /\ UNCHANGED <<own, cf, reserved, yielded, completed, taken, noneSeen, calls, alive, op, tk, got, polled, left, buf, nops, mon>>

LenLoadR(t) ==
  /\ pc[t] = "ldr"
  /\ hb' = HbLoad(hb, t, "r", OrdCurrent)
  /\ LET v == IF reserved < cf.len THEN cf.len - reserved ELSE 0 IN
     res' = [res EXCEPT ![t] = IF op[t].k = "hasmore" THEN RHasMore(TRUE, v) ELSE RLen(TRUE, v)]
  /\ pc' = [pc EXCEPT ![t] = "ret"]
  /\ Sched(t)
  /\ UNCHANGED <<own, cf, reserved, yielded, completed, taken, noneSeen, calls, alive, op, tk, got, polled, left, buf, nops, mon>>

\* skip_to_end, version 1.22.1: reserved.store(usize::MAX); completed.store(true)
SkipStoreR(t) ==
  /\ pc[t] = "str"
  /\ reserved' = MAXW
  /\ hb' = HbStore(hb, t, "r", "SeqCst")
  /\ ClearPolled
  /\ pc' = [pc EXCEPT ![t] = "stc"]
  /\ Sched(t)
  /\ UNCHANGED <<own, cf, yielded, completed, taken, noneSeen, calls, alive, op, tk, got, left, res, buf, nops, mon>>

SkipStoreC(t) ==
  /\ pc[t] = "stc"
  /\ completed' = TRUE
  /\ hb' = HbStore(hb, t, "c", "SeqCst")
  /\ ClearPolled
  /\ pc' = [pc EXCEPT ![t] = "ret"]
  /\ Sched(t)
  /\ UNCHANGED <<own, cf, reserved, yielded, taken, noneSeen, calls, alive, op, tk, got, left, res, buf, nops, mon>>

\* into_seq_iter returns the wrapped iterator; the owner then calls its next() directly
SeqEnter(t) ==
  /\ pc[t] = "senter"
  /\ mon' = MNextEnter(mon, t)
  /\ hb' = HbAccess(hb, t)
  /\ pc' = [pc EXCEPT ![t] = "sexit"]
  /\ UNCHANGED <<own, cf, reserved, yielded, completed, taken, noneSeen, calls, alive, op, tk, got, polled, left, res, buf, nops, h>>

SeqExit(t) ==
  /\ pc[t] = "sexit"
  /\ calls' = calls + 1
  /\ IF HasItem
       THEN LET l2 == IF left[t] > 0 THEN left[t] - 1 ELSE left[t] IN
            /\ taken' = taken + 1
            /\ res' = [res EXCEPT ![t].vals = Append(@, cf.base + taken)]
            /\ left' = [left EXCEPT ![t] = l2]
            /\ pc' = [pc EXCEPT ![t] = IF l2 = 0 THEN "ret" ELSE "senter"]
            /\ LET gone == IF l2 = 0 THEN InSource(taken + 1) ELSE << >> IN
               OwnUpd(t, own.slots[t], gone) /\ mon' = MonDrop(MNextExit(mon, t), gone)
       ELSE /\ res' = [res EXCEPT ![t].full = TRUE]
            /\ pc' = [pc EXCEPT ![t] = "ret"]
            /\ mon' = MNextExit(mon, t)
            /\ UNCHANGED <<taken, left, own>>
  /\ noneSeen' = (noneSeen \/ ~HasItem)
  /\ UNCHANGED <<cf, reserved, yielded, completed, alive, op, tk, got, polled, buf, nops, hb, h>>

Ret(t) ==
  /\ pc[t] = "ret"
  /\ mon' = MRet(mon, t, res[t])
  /\ pc' = [pc EXCEPT ![t] = "idle"]
  /\ own' = [own EXCEPT !.expd[t] = << >>]
  /\ Sched(t)
  /\ UNCHANGED <<cf, reserved, yielded, completed, taken, noneSeen, calls, alive, op, tk, got, polled, left, res, buf, nops, hb>>

Stop(t) ==
  /\ pc[t] = "idle"
  /\ (Scenario # "" /\ t # 0) => nops[t] = Len(ScenarioProg[t])
  /\ pc' = [pc EXCEPT ![t] = "done"]
  /\ mon' = MonDrop(mon, Leftovers(own.slots[t]))
  /\ own' = [own EXCEPT !.slots[t] = << >>]
  /\ UNCHANGED <<cf, reserved, yielded, completed, taken, noneSeen, calls, alive, op, tk, got, polled, left, res, buf, nops, hb, h>>

Step(t) ==
  \/ \E o \in Ops : Call(t, o)
  \/ Chk(t) \/ Reserve(t) \/ LoadY(t) \/ LoadC(t) \/ Enter(t) \/ Exit(t) \/ SetC(t) \/ PGuard(t) \/ Pub(t)
  \/ LenLoadC(t) \/ LenLoadR(t) \/ SkipStoreR(t) \/ SkipStoreC(t) \/ SeqEnter(t) \/ SeqExit(t) \/ Ret(t)

InitWith(c) ==
  /\ cf = c
  /\ reserved = 0 /\ yielded = 0 /\ completed = FALSE /\ taken = 0 /\ noneSeen = FALSE /\ calls = 0 /\ alive = TRUE
  /\ pc = [t \in 0..c.nt |-> "idle"]
  /\ op = [t \in 0..c.nt |-> [k |-> "", n |-> 0, take |-> -1, fin |-> FALSE]]
  /\ tk = [t \in 0..c.nt |-> 0]
  /\ got = [t \in 0..c.nt |-> << >>]
  /\ polled = [t \in 0..c.nt |-> {}]
  /\ left = [t \in 0..c.nt |-> -1]
  /\ res = [t \in 0..c.nt |-> RUnit]
  /\ buf = [t \in 0..c.nt |-> 0]
  /\ nops = [t \in 0..c.nt |-> 0]
  /\ mon = MonInit(MonCfg(c))
  /\ hb = HbInit(c.nt, {"r", "y", "c"})
  /\ own = OwnInit(c)
  /\ h = [sched |-> << >>, prog |-> [t \in 0..c.nt |-> << >>]]

ResetWith(c) ==
  /\ cf' = c
  /\ reserved' = 0 /\ yielded' = 0 /\ completed' = FALSE /\ taken' = 0 /\ noneSeen' = FALSE /\ calls' = 0 /\ alive' = TRUE
  /\ pc' = [t \in 0..c.nt |-> "idle"]
  /\ op' = [t \in 0..c.nt |-> [k |-> "", n |-> 0, take |-> -1, fin |-> FALSE]]
  /\ tk' = [t \in 0..c.nt |-> 0]
  /\ got' = [t \in 0..c.nt |-> << >>]
  /\ polled' = [t \in 0..c.nt |-> {}]
  /\ left' = [t \in 0..c.nt |-> -1]
  /\ res' = [t \in 0..c.nt |-> RUnit]
  /\ buf' = [t \in 0..c.nt |-> 0]
  /\ nops' = [t \in 0..c.nt |-> 0]
  /\ mon' = MonInit(MonCfg(c))
  /\ hb' = HbInit(c.nt, {"r", "y", "c"})
  /\ own' = OwnInit(c)
  /\ h' = [sched |-> << >>, prog |-> [t \in 0..c.nt |-> << >>]]

Init == InitWith(CfgOfModel)

Terminal == \A t \in T : pc[t] = "done"
Next == (\E t \in T : Step(t) \/ Stop(t)) \/ (Terminal /\ UNCHANGED vars)

Spec == Init /\ [][Next]_vars

(***************************************************************************)
(* Properties                                                               *)
(***************************************************************************)
NoFlags == mon.flags = {}
Inv_C01 == Holds(mon, "C01")
Inv_C02 == Holds(mon, "C02")
Inv_C03 == Holds(mon, "C03")
Inv_C04 == Holds(mon, "C04")
Inv_C05 == Holds(mon, "C05")
Inv_C06 == Holds(mon, "C06")
Inv_C07_Mutex == "Mutex" \notin mon.flags
Inv_C07_NoRace == ~hb.race
Inv_C08 == Holds(mon, "C08")
Inv_C10 == Holds(mon, "C10")
Inv_C11 == Holds(mon, "C11")
Inv_C12 == Holds(mon, "C12")
Inv_C17 == Holds(mon, "C17")
\* the index a ticket holder reports is the position of the item it takes (reason for C02):
\* whenever a thread is about to call the wrapped next(), everything before its ticket has been taken
Inv_TicketIsPosition ==
  \A t \in T : pc[t] = "enter" /\ op[t].k # "intoseq" /\ taken < cf.len /\ ~noneSeen => taken = tk[t] + Len(got[t])
\* C08 / C15 on the model: when the concurrent iterator is gone and every thread has ended (its buffered iterator
\* with it), every element the wrapped iterator held or yielded has been handed to a caller or destroyed exactly once
Inv_OwnEnd == (OwnApplies /\ ~alive /\ cf.panicAt = 0 /\ \A t \in T : pc[t] = "done")
                => \A p \in 0..(cf.len - 1) : mon.moves[p] + mon.drops[p] = 1
\* no wrap-around under the precondition of C01 / C05
Inv_NoWrap == reserved < MOD \div 2 /\ yielded < MOD \div 2
\* C09 / C18: with the poll reduction, a hang of the real code is a deadlock of this model
\* (checked with CHECK_DEADLOCK TRUE; the terminal state stutters explicitly)


\* counterexample export: the violating behaviour's programs and schedule, for replay on the real crate
Cex(P) == P \/ (PrintT(<<"CEX", ToJson(h)>>) /\ FALSE)
NoFlagsX == Cex(NoFlags)
SpecGen == Init /\ [][\E t \in T : Step(t) \/ Stop(t)]_vars
Inv_C07_NoRaceX == Cex(Inv_C07_NoRace)
Stuck == ~Terminal /\ ~ENABLED (\E t \in T : Step(t) \/ Stop(t))
Inv_C09_NoHangX == Cex(~Stuck)

GenEmit == Terminal => PrintT(<<"SCN", ToJson(h)>>)
=============================================================================
