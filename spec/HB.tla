--------------------------------- MODULE HB ---------------------------------
(***************************************************************************)
(* Happens-before bookkeeping for the non-atomic cell that holds the         *)
(* wrapped sequential iterator (C07), following the C11 / Rust release-      *)
(* acquire rules.  Exact up to the first race, on sequentially consistent    *)
(* interleavings:                                                           *)
(*                                                                         *)
(*   accesses to the cell are numbered 1..nacc in interleaving order;        *)
(*   seen[t]  = highest access that happens-before thread t's next step;     *)
(*   rel[loc] = highest access carried by the head of the release sequence   *)
(*              currently stored at atomic location loc.                     *)
(*                                                                         *)
(* Under mutual exclusion every access must see its predecessor, so a        *)
(* scalar per thread suffices.  The operators are pure (hb' = HbX(hb,..))    *)
(* and are used by the Ticket model, where the orderings are constants, and  *)
(* by TraceHB, where they are the orderings logged by the real code.         *)
(***************************************************************************)
EXTENDS Integers, TLC

HMax(a, b) == IF a >= b THEN a ELSE b
IsAcq(o) == o \in {"Acquire", "AcqRel", "SeqCst"}
IsRel(o) == o \in {"Release", "AcqRel", "SeqCst"}

HbInit(nthreads, locs) ==
  [ nacc |-> 0,
    seen |-> [t \in 0..nthreads |-> 0],
    rel  |-> [x \in locs |-> 0],
    race |-> FALSE,
    owner |-> TRUE ]       \* the owning thread is running (sequential phase)

HbAddLoc(hb, x) == IF x \in DOMAIN hb.rel THEN hb ELSE [hb EXCEPT !.rel = (x :> 0) @@ @]

\* fork / join with the owning thread 0: spawning copies the owner's knowledge to the workers,
\* joining gives the owner everything the workers know
HbPhase(hb, t) ==
  IF t = 0 /\ ~hb.owner
    THEN LET m == CHOOSE v \in {hb.seen[u] : u \in DOMAIN hb.seen} :
                    \A u \in DOMAIN hb.seen : hb.seen[u] <= v
         IN [hb EXCEPT !.seen[0] = m, !.owner = TRUE]
  ELSE IF t # 0 /\ hb.owner
    THEN [hb EXCEPT !.seen = [u \in DOMAIN @ |-> HMax(@[u], hb.seen[0])], !.owner = FALSE]
  ELSE hb

HbLoad(hb0, t, x, ord) ==
  LET hb == HbAddLoc(HbPhase(hb0, t), x) IN
  IF IsAcq(ord) THEN [hb EXCEPT !.seen[t] = HMax(@, hb.rel[x])] ELSE hb

HbStore(hb0, t, x, ord) ==
  LET hb == HbAddLoc(HbPhase(hb0, t), x) IN
  [hb EXCEPT !.rel[x] = IF IsRel(ord) THEN hb.seen[t] ELSE 0]

HbRmw(hb0, t, x, ord) ==
  LET hb == HbAddLoc(HbPhase(hb0, t), x)
      s  == IF IsAcq(ord) THEN HMax(hb.seen[t], hb.rel[x]) ELSE hb.seen[t]
  IN [hb EXCEPT !.seen[t] = s,
                !.rel[x] = IF IsRel(ord) THEN HMax(@, s) ELSE @]

\* access of thread t to the cell (entry of the wrapped iterator's next, into_inner, drop)
HbAccess(hb0, t) ==
  LET hb == HbPhase(hb0, t) IN
  [hb EXCEPT !.race = @ \/ hb.seen[t] < hb.nacc,
             !.nacc = @ + 1,
             !.seen[t] = hb.nacc + 1]
=============================================================================
