"""Scenario suites (E2) and model-checking configurations (E1)."""
import random
import gen
from engine import generate, scenario_of

KNOWN = ["slice", "vecref", "arrref", "range", "rangeref", "vec", "array", "cloned_slice", "copied_slice", "numslice"]
TICKET = ["iter", "refiter", "numrefiter", "cloned_iter", "copied_iter"]
ALL = KNOWN + TICKET

FIX = dict(FixA=True, FixH=True, OrdCurrent="Acquire")

# ---------------------------------------------------------------------------------------------------
# E1 configurations.  name -> (module, constants, invariants, deadlock)
# ---------------------------------------------------------------------------------------------------
C_BASE = dict(NT=2, SrcLen=3, Start=0, Kind="slice", MaxOps=2, OwnerOps=0, Sizes={1, 2, 4}, TakeSet={9},
              OpKinds={"next", "nextid", "chunk", "bnew", "bnext"}, MOD=64, Mutant="")
T_BASE = dict(NT=2, SrcLen=2, Hint="exact", PanicAt=0, Revive=0, MaxOps=2, OwnerOps=0, Sizes={1, 2, 3}, TakeSet={9},
              OpKinds={"next", "nextid", "chunk", "bnew", "bnext"}, MOD=64, Mutant="", Scenario="", **FIX)
C_INV = ["Inv_C01", "Inv_C02", "Inv_C03", "Inv_C04", "Inv_C05", "Inv_C06", "Inv_C08", "Inv_C10", "Inv_C11", "Inv_C12",
         "Inv_C19", "Inv_NoWrap", "Inv_C09_LockFree", "NoFlags"]
T_INV = ["Inv_C01", "Inv_C02", "Inv_C03", "Inv_C04", "Inv_C05", "Inv_C06", "Inv_C07_NoRace", "Inv_C07_Mutex", "Inv_C08",
         "Inv_C10", "Inv_C11", "Inv_C12", "Inv_C17", "Inv_TicketIsPosition", "Inv_NoWrap", "NoFlags"]
# non-fused sources: positions and indices of the late elements are not meaningful; what must hold is that
# nothing is delivered to a pull that starts after an end report, mutual exclusion and progress
T_REVIVE_INV = ["Inv_C05", "Inv_C07_NoRace", "Inv_C07_Mutex", "Inv_C17"]


def cfg(base, **kw):
    c = dict(base)
    c.update(kw)
    return c


E1 = {
    # known-size kinds
    "counter_pulls": ("Counter", cfg(C_BASE), C_INV, False),
    "counter_skipq": ("Counter", cfg(C_BASE, SrcLen=2, OpKinds={"next", "chunk", "skip", "len", "hasmore"}), C_INV, False),
    "counter_comp": ("Counter", cfg(C_BASE, Sizes={1, 2}, TakeSet={9, 1},
                                    OpKinds={"next", "foreach", "eforeach", "fold", "values", "idsvalues"}), C_INV, False),
    "counter_owner": ("Counter", cfg(C_BASE, Kind="vec", OwnerOps=2, Sizes={1, 4}, TakeSet={9, 1},
                                     OpKinds={"next", "chunk", "skip", "intoseq", "hasmore", "drop"}), C_INV, False),
    # ownership of the elements of a consumed vector / array (slots, predicted destructor runs, buffer)
    "counter_own_vec": ("Counter", cfg(C_BASE, Kind="vec", SrcLen=3, MaxOps=1, OwnerOps=1, Sizes={1, 2, 4}, TakeSet={9, 1},
                                       OpKinds={"next", "chunk", "bnew", "bnext", "foreach", "intoseq", "drop"}), C_INV + ["Inv_OwnEnd"], False),
    "counter_own_arr": ("Counter", cfg(C_BASE, Kind="array", SrcLen=2, MaxOps=2, OwnerOps=1, Sizes={1, 3}, TakeSet={9, 1},
                                       OpKinds={"next", "chunk", "foreach", "intoseq", "drop"}), C_INV + ["Inv_OwnEnd"], False),
    "counter_3t": ("Counter", cfg(C_BASE, NT=3, MaxOps=1, OpKinds={"next", "nextid", "chunk", "skip", "len"}), C_INV, False),
    "counter_multi": ("Counter", cfg(C_BASE, NT=0, MaxOps=0, OwnerOps=6, Sizes={1, 2}, TakeSet={9},
                                     OpKinds={"next", "chunk", "clone", "len", "skip", "intoseq"}), C_INV, False),
    "counter_range": ("Counter", cfg(C_BASE, Kind="range", Start=5, SrcLen=2, OwnerOps=1,
                                     OpKinds={"next", "chunk", "skip", "hasmore", "intoseq"}), C_INV, False),
    # wrapper of an arbitrary iterator
    "ticket_pulls": ("Ticket", cfg(T_BASE), T_INV, True),
    "ticket_skip": ("Ticket", cfg(T_BASE, Sizes={2}, OpKinds={"next", "chunk", "skip", "hasmore"}), T_INV, True),
    "ticket_query": ("Ticket", cfg(T_BASE, Sizes={2}, Hint="inexact", OpKinds={"next", "bnew", "bnext", "len", "hasmore"}), T_INV, True),
    "ticket_comp": ("Ticket", cfg(T_BASE, Sizes={1, 2}, TakeSet={9, 1},
                                  OpKinds={"next", "foreach", "eforeach", "fold", "values"}), T_INV, True),
    "ticket_owner": ("Ticket", cfg(T_BASE, OwnerOps=2, Sizes={3}, TakeSet={9, 1},
                                   OpKinds={"next", "chunk", "skip", "intoseq", "hasmore"}), T_INV, True),
    # ownership of the elements of an owning wrapped iterator (slots of the buffered iterators, predicted destructor runs)
    "ticket_own": ("Ticket", cfg(T_BASE, SrcLen=3, MaxOps=2, OwnerOps=1, Sizes={2}, TakeSet={9, 1},
                                 OpKinds={"next", "chunk", "bnew", "bnext", "bdrop", "intoseq", "drop"}), T_INV + ["Inv_OwnEnd"], True),
    "ticket_own_seq": ("Ticket", cfg(T_BASE, NT=1, SrcLen=4, MaxOps=4, OwnerOps=1, Sizes={2}, TakeSet={9, 1},
                                     OpKinds={"next", "bnew", "bnext", "bdrop", "foreach", "intoseq", "drop"}), T_INV + ["Inv_OwnEnd"], True),
    "ticket_panic1": ("Ticket", cfg(T_BASE, PanicAt=1, Sizes={2}, OpKinds={"next", "chunk", "bnew", "bnext"}), T_INV, True),
    "ticket_panic2": ("Ticket", cfg(T_BASE, PanicAt=2, Sizes={2}, OpKinds={"next", "chunk", "foreach"}), T_INV, True),
    "ticket_revive": ("Ticket", cfg(T_BASE, Revive=1, SrcLen=1, Sizes={2}, OpKinds={"next", "chunk", "bnew", "bnext", "hasmore"}), T_REVIVE_INV, True),
    "ticket_3t": ("Ticket", cfg(T_BASE, NT=3, MaxOps=1, SrcLen=2, Sizes={2}, OpKinds={"next", "chunk", "skip"}), T_INV, True),
}

# liveness under weak fairness of each thread's own steps (no state constraint, no symmetry): name ->
# (module, constants, temporal properties)
E1_LIVENESS = {
    "counter_live": ("Counter", cfg(C_BASE, SrcLen=2, MaxOps=1, Sizes={1, 3}, OpKinds={"next", "chunk", "skip", "len", "foreach"}), ["Live_C09"]),
}

E1_THOROUGH = {
    "counter_pulls_2x3": ("Counter", cfg(C_BASE, MaxOps=3), C_INV, False),
    "counter_skipq_2x3": ("Counter", cfg(C_BASE, SrcLen=2, MaxOps=3, OpKinds={"next", "chunk", "skip", "len", "hasmore"}), C_INV, False),
    "counter_own_vec_2x2": ("Counter", cfg(C_BASE, Kind="vec", SrcLen=3, MaxOps=2, OwnerOps=1, Sizes={1, 2, 4}, TakeSet={9, 1},
                                           OpKinds={"next", "chunk", "bnew", "bnext", "foreach", "intoseq", "drop"}), C_INV + ["Inv_OwnEnd"], False),
    "counter_3t_2": ("Counter", cfg(C_BASE, NT=3, MaxOps=2, SrcLen=2, Sizes={1, 3}, OpKinds={"next", "chunk", "skip"}), C_INV, False),
    "ticket_pulls_2x3": ("Ticket", cfg(T_BASE, MaxOps=3, Sizes={1, 2}), T_INV, True),
    "ticket_skip_2x3": ("Ticket", cfg(T_BASE, MaxOps=3, Sizes={2}, OpKinds={"next", "chunk", "skip", "hasmore"}), T_INV, True),
    "ticket_3t_2": ("Ticket", cfg(T_BASE, NT=3, MaxOps=2, SrcLen=2, Sizes={2}, OpKinds={"next", "chunk"}), T_INV, True),
    "ticket_panic3": ("Ticket", cfg(T_BASE, PanicAt=3, SrcLen=3, Sizes={2}, OpKinds={"next", "chunk", "bnew", "bnext"}), T_INV, True),
}

# mutated designs that MUST be rejected (non-vacuity of the E1 invariants): name -> (module, constants, invariants, deadlock)
E1_NEGATIVE = {
    "neg_clamp": ("Counter", cfg(C_BASE, Mutant="clamp_off_by_one"), C_INV, False),
    "neg_skip": ("Counter", cfg(C_BASE, SrcLen=2, Mutant="skip_len_minus_1", OpKinds={"next", "chunk", "skip", "hasmore"}), C_INV, False),
    "neg_clone": ("Counter", cfg(C_BASE, NT=0, MaxOps=0, OwnerOps=4, Sizes={1}, Mutant="clone_restarts", OpKinds={"next", "clone"}), C_INV, False),
    "neg_relaxed": ("Ticket", cfg(T_BASE, OrdCurrent="Relaxed"), T_INV, True),
    "neg_skipmax": ("Ticket", cfg(T_BASE, FixA=False, MaxOps=3, Sizes={2}, OpKinds={"next", "chunk", "skip", "hasmore"}), T_INV, True),
    "neg_panic": ("Ticket", cfg(T_BASE, FixH=False, PanicAt=1, Sizes={2}, OpKinds={"next", "chunk"}), T_INV, True),
    # not a mutation but the design itself on a 2-bit machine word: a chunk request of 3 and two single pulls wrap the
    # ticket dispenser, two threads hold ticket 0 (model-level witness of known finding G6)
    "wrap_small_word": ("Ticket", cfg(T_BASE, NT=3, MaxOps=1, SrcLen=2, MOD=4, Sizes={3}, OpKinds={"next", "chunk"}), ["Inv_C07_Mutex"], False),
    "neg_overwrite": ("Ticket", cfg(T_BASE, NT=1, SrcLen=4, MaxOps=4, OwnerOps=1, Sizes={2}, TakeSet={9, 1}, Mutant="overwrite_forgets",
                                    OpKinds={"next", "bnew", "bnext", "bdrop", "intoseq", "drop"}), ["Inv_OwnEnd"], True),
    "neg_revive": ("Ticket", cfg(T_BASE, Revive=1, SrcLen=1, Sizes={2}, Mutant="short_chunk_no_completed", OpKinds={"next", "chunk", "bnew", "bnext"}), T_REVIVE_INV, True),
}


# ---------------------------------------------------------------------------------------------------
# E2 suites
# ---------------------------------------------------------------------------------------------------
def kind_len(kind, ln):
    return ln


def gen_counter(tier, seed, sid0):
    """spec -> implementation: ALL behaviours of the 2x1 configuration of Counter (every interleaving of
    every pair of operations), replayed on the known-size kinds."""
    c = cfg(C_BASE, SrcLen=2, MaxOps=1, Sizes={1, 2, 3},
            OpKinds={"next", "nextid", "chunk", "foreach", "eforeach", "fold", "values", "idsvalues", "skip", "len", "hasmore"})
    g = generate("genc_2x1", "Counter", c, "all", timeout=900)
    rng = random.Random(seed)
    beh = g["behaviours"]
    kinds = ["slice", "range", "vec", "array", "cloned_slice", "copied_slice", "vecref", "arrref"]
    out = []
    frac = 0.25 if tier == "quick" else 1.0
    reps = 1 if tier == "quick" else 3
    for i, hrec in enumerate(beh):
        # behaviours in which a skip_to_end races with something are always replayed (on a slice-like and on
        # another kind); of the others a seeded quarter in the quick tier
        progs = hrec["prog"].values() if isinstance(hrec["prog"], dict) else hrec["prog"]
        has_skip = any(o["k"] == "skip" for p in progs for o in p) and sum(1 for p in progs if p) >= 2
        if not has_skip and frac < 1.0 and rng.random() > frac:
            continue
        for r in range(max(reps, 2) if has_skip else reps):
            kind = kinds[(i + r * 3) % len(kinds)]
            extra = {"tag": {"suite": "gen_counter", "beh": i}}
            if kind == "range":
                extra["start"] = 5
            out.append(scenario_of(hrec, sid0 + len(out), kind, 2, 2, extra))
    meta = {"behaviours": len(beh), "states": g["states"], "transitions": g["transitions"], "exhaustive_export": g["exhaustive"],
            "replayed": len(out)}
    return out, meta


def gen_ticket(tier, seed, sid0):
    """spec -> implementation: behaviours of Ticket.  quick: TLC simulation of the 2x2 configuration;
    thorough: additionally ALL behaviours of a 2x1 configuration."""
    c = cfg(T_BASE, SrcLen=2, MaxOps=2, Sizes={1, 2},
            OpKinds={"next", "nextid", "chunk", "bnew", "bnext", "skip", "hasmore", "len", "foreach"})
    n = 400 if tier == "quick" else 6000
    g = generate("gent_sim", "Ticket", c, "sim", n=n, depth=150, seed=seed % 100000 + 1)
    beh = list(g["behaviours"])
    # three threads (a buffered pull in flight, a waiter behind it, a skip / single pull): simulated behaviours
    c3 = cfg(T_BASE, NT=3, SrcLen=3, MaxOps=2, Sizes={2, 3}, OpKinds={"next", "bnew", "bnext", "chunk", "skip"})
    g3 = generate("gent_sim3", "Ticket", c3, "sim", n=(300 if tier == "quick" else 5000), depth=200, seed=seed % 100000 + 7)
    beh3 = list(g3["behaviours"])
    # fixed three-party programs (a pull in flight, a pull queued behind it, a skip or two queries): simulation
    for scn in ("tri_buf_skip", "tri_chunk_skip", "tri_query", "tri_hasmore"):
        ct = cfg(T_BASE, NT=3, SrcLen=4, MaxOps=2, Sizes={1, 2, 3, 4},
                 OpKinds={"next", "nextid", "chunk", "bnew", "bnext", "skip", "len", "hasmore"}, Scenario=scn)
        gs = generate("gent_" + scn, "Ticket", ct, "sim", n=(250 if tier == "quick" else 4000), depth=150, seed=seed % 100000 + 11)
        beh3 += [dict(b, _len=4) for b in gs["behaviours"]]
    meta = {"sim_behaviours": len(beh), "sim3_behaviours": len(beh3)}
    if tier != "quick":
        c1 = cfg(T_BASE, SrcLen=1, MaxOps=1, Sizes={2}, OpKinds={"next", "chunk", "skip", "hasmore"})
        g1 = generate("gent_2x1", "Ticket", c1, "all", timeout=1500)
        meta.update({"all_behaviours": len(g1["behaviours"]), "states": g1["states"], "exhaustive_export": g1["exhaustive"]})
        beh1 = g1["behaviours"]
    else:
        beh1 = []
    kinds = ["iter", "refiter", "cloned_iter", "copied_iter"]
    out = []
    for i, hrec in enumerate(beh):
        out.append(scenario_of(hrec, sid0 + len(out), kinds[i % len(kinds)], 2, 2,
                               {"hint": "exact", "tag": {"suite": "gen_ticket", "beh": i}}))
    for i, hrec in enumerate(beh3):
        out.append(scenario_of(hrec, sid0 + len(out), kinds[i % len(kinds)], hrec.get("_len", 3), 3,
                               {"hint": "exact", "tag": {"suite": "gen_ticket3", "beh": i}}))
    for i, hrec in enumerate(beh1):
        out.append(scenario_of(hrec, sid0 + len(out), kinds[i % 2], 1, 2,
                               {"hint": "exact", "tag": {"suite": "gen_ticket_all", "beh": i}}))
    meta["replayed"] = len(out)
    return out, meta


def rand_suite(tier, seed, sid0):
    """implementation -> specification: seeded random programs and schedules on larger inputs, all kinds."""
    rng = random.Random(seed * 7919 + 13)
    per = 120 if tier == "quick" else 2500
    out = []
    for kind in ALL:
        for j in range(per):
            sid = sid0 + len(out)
            r = j % 6
            if r < 3:
                sc = gen.concurrent(rng, sid, kind)
                sc["tag"] = {"suite": "rand_conc"}
            elif r == 3:
                sc = gen.concurrent(rng, sid, kind, p_skip=0.2)
                sc["tag"] = {"suite": "skip_conc"}
            elif r == 4:
                sc = gen.sequential(rng, sid, kind)
                sc["tag"] = {"suite": "rand_seq"}
            else:
                sc = gen.composite(rng, sid, kind)
                sc["tag"] = {"suite": "comp"}
            out.append(sc)
    for kind in ALL:
        for j in range(max(10, per // 6)):
            sc = gen.skip_storm(rng, sid0 + len(out), kind)
            sc["tag"] = {"suite": "skip_storm"}
            out.append(sc)
    for kind in ALL:
        for j in range(per // 2 if kind in TICKET else max(10, per // 6)):
            sc = gen.tri(rng, sid0 + len(out), kind)
            sc["tag"] = {"suite": "tri_conc"}
            out.append(sc)
    # partly consumed chunks followed by further pulls, enumerated
    for kind in list(ALL) + ["vec_h", "iter_h"]:
        base = {"vec_h": "vec", "iter_h": "iter"}.get(kind, kind)
        ps = gen.partial(base, sid0 + len(out))
        for sc in ps:
            sc["id"] = sid0 + len(out)
            sc["kind"] = kind
            sc["tag"] = {"suite": "partial"}
            out.append(sc)
    # elements that own heap memory: a leaked element is a leaked allocation (sequential and concurrent)
    for kind in ("vec_h", "iter_h"):
        for j in range(per):
            base = "vec" if kind == "vec_h" else "iter"
            sc = gen.sequential(rng, sid0 + len(out), base, p_skip=0.0) if j % 2 else gen.concurrent(rng, sid0 + len(out), base, hint="exact")
            sc["kind"] = kind
            sc["tag"] = {"suite": "heap_elems"}
            out.append(sc)
    # zero-sized elements have no identity: sequential histories only (the value reported is the delivery order)
    for kind in ("vec_zst", "array_zst"):
        for j in range(per // 2):
            sc = gen.sequential(rng, sid0 + len(out), "array" if kind == "array_zst" else "vec", p_skip=0.05)
            sc["kind"] = kind
            sc["tag"] = {"suite": "zst_seq"}
            out.append(sc)
    # non-fused wrapped iterators: after its first None the source yields further items
    for j in range(per):
        sid = sid0 + len(out)
        sc = gen.concurrent(rng, sid, "iter", hint=rng.choice(["exact", "inexact", "unbounded"])) if j % 2 else gen.sequential(rng, sid, "iter", p_skip=0.05)
        sc["revive"] = rng.choice([1, 2])
        if sc.get("hint") == "inexact" and sc["len"] == 0:
            sc["hint"] = "exact"
        sc["tag"] = {"suite": "revive"}
        out.append(sc)
    return out, {"replayed": len(out)}


def panic_suite(tier, seed, sid0):
    """crash points: the wrapped iterator's k-th next(), the k-th clone, the k-th closure invocation."""
    rng = random.Random(seed * 31 + 5)
    out = []
    reps = 6 if tier == "quick" else 60
    for kind in ["iter", "refiter", "cloned_iter", "copied_iter"]:
        for ln in (1, 2, 3, 4):
            for k in range(1, ln + 2):
                for _ in range(reps):
                    sc = gen.concurrent(rng, sid0 + len(out), kind, ln=ln, hint="exact")
                    sc["panic_next"] = k
                    sc["post"] = [p for p in sc.get("post", []) if p["op"] not in ("intoseq",)]
                    sc["tag"] = {"suite": "panic_next", "k": k}
                    out.append(sc)
    for kind in ["slice", "vec", "array", "range", "iter", "cloned_slice", "cloned_iter"]:
        for ln in (2, 3, 4):
            for k in range(1, ln + 1):
                for _ in range(max(1, reps // 2)):
                    sc = gen.concurrent(rng, sid0 + len(out), kind, ln=ln, hint="exact")
                    t = rng.randrange(len(sc["threads"]))
                    sc["threads"][t] = [{"op": rng.choice(["foreach", "eforeach", "fold"]), "n": rng.choice([1, 2, 3]),
                                         "panic_at": k, "unwind": rng.random() < 0.4}] + sc["threads"][t][:1]
                    sc["tag"] = {"suite": "panic_closure", "k": k}
                    out.append(sc)
    # a closure panics early while plenty of elements are left, and a guard of the caller pulls once more while
    # the panic unwinds; the other threads must still get (or see dropped) everything else
    for kind in ["iter", "refiter", "cloned_iter", "vec", "slice", "range"]:
        for _ in range(reps * 4):
            ln = rng.choice([4, 5, 6])
            t1 = [{"op": rng.choice(["foreach", "eforeach", "fold"]), "n": rng.choice([1, 2, 3]), "panic_at": rng.choice([1, 1, 2]), "unwind": True}]
            t2 = [rng.choice([{"op": "foreach", "n": rng.choice([1, 2])}, {"op": "values"}, {"op": "fold", "n": 3}])]
            sc = {"id": sid0 + len(out), "kind": kind, "len": ln, "hint": "exact", "threads": [t1, t2],
                  "policy": rng.choice(["rr", "rand", "sticky"]), "seed": rng.randrange(1 << 30),
                  "post": [{"op": "next"}, {"op": "hasmore"}], "tag": {"suite": "panic_unwind"}}
            out.append(sc)
    # the k-th clone of an element panics (cloned adaptors), with a scheduling point inside clone()
    for kind in ["cloned_slice", "cloned_iter"]:
        for ln in (2, 3, 4):
            for k in range(1, ln + 1):
                for _ in range(reps):
                    sc = gen.concurrent(rng, sid0 + len(out), kind, ln=ln, hint="exact")
                    sc["clone_panic"] = k
                    sc["post"] = [{"op": "hasmore"}, {"op": "next"}, {"op": "chunk", "n": 2}, {"op": "len"}]
                    sc["tag"] = {"suite": "panic_clone", "k": k}
                    out.append(sc)
    # wrapped iterator panics with heap-owning elements (what the machinery buffered must still be released)
    for ln in (2, 3, 4):
        for k in range(1, ln + 2):
            for _ in range(reps):
                sc = gen.concurrent(rng, sid0 + len(out), "iter", ln=ln, hint="exact")
                sc["kind"] = "iter_h"
                sc["panic_next"] = k
                sc["post"] = [p for p in sc.get("post", []) if p["op"] != "intoseq"]
                sc["tag"] = {"suite": "panic_next_heap", "k": k}
                out.append(sc)
    # a destructor of an element panics while the machinery drops it (consuming kinds)
    for kind in ["vec", "array", "iter"]:
        for ln in (2, 3, 4):
            for _ in range(reps * 2):
                sc = gen.sequential(rng, sid0 + len(out), kind, ln=ln, p_skip=0.0) if rng.random() < 0.6 else \
                    gen.concurrent(rng, sid0 + len(out), kind, ln=ln, hint="exact")
                sc["drop_panic"] = 100 + rng.randrange(0, ln)
                sc["tag"] = {"suite": "panic_drop"}
                out.append(sc)
    return out, {"replayed": len(out)}


def freeze_suite(tier, seed, sid0):
    """adversarial suspension (known-size kinds): one thread is frozen forever after k of its steps; the
    calls of the others must still return."""
    rng = random.Random(seed * 101 + 3)
    out = []
    reps = 40 if tier == "quick" else 600
    for kind in KNOWN:
        for _ in range(reps):
            sc = gen.concurrent(rng, sid0 + len(out), kind, nthreads=rng.choice([2, 3]), p_skip=0.1)
            sc.pop("post", None)
            sc["freeze"] = [rng.randrange(1, len(sc["threads"]) + 1), rng.randrange(0, 8)]
            sc["tag"] = {"suite": "freeze"}
            out.append(sc)
    # systematic: every behaviour of the 2x1 Counter configuration (TLC export) x which thread is frozen x after how
    # many of its steps (sampled in the quick tier)
    c = cfg(C_BASE, SrcLen=2, MaxOps=1, Sizes={1, 2, 3},
            OpKinds={"next", "nextid", "chunk", "foreach", "eforeach", "fold", "values", "idsvalues", "skip", "len", "hasmore"})
    g = generate("genc_2x1", "Counter", c, "all", timeout=900)
    beh = [b for b in g["behaviours"] if all(len(b["prog"].get(str(t), [])) > 0 for t in (1, 2))] if g["behaviours"] and isinstance(g["behaviours"][0]["prog"], dict) else g["behaviours"]
    n = 1500 if tier == "quick" else 40000
    kinds = ["vec", "slice", "range", "array", "cloned_slice", "copied_slice"]
    for i in range(min(n, len(beh) * 4)):
        b = beh[rng.randrange(len(beh))]
        t = rng.choice([1, 2])
        k = rng.randrange(0, 4)
        kind = kinds[i % len(kinds)]
        sc = scenario_of(b, sid0 + len(out), kind, 2, 2, {"tag": {"suite": "freeze_gen"}})
        sc.pop("post", None)
        sc["freeze"] = [t, k]
        if kind == "range":
            sc["start"] = 5
        out.append(sc)
    return out, {"replayed": len(out)}


def dual_suite(tier, seed, sid0):
    """C17: ordinary operation histories (every operation, chunk sizes up to a little beyond the length, with
    destructor and allocation accounting) plus seeded concurrent runs; executed by the harness built with
    debug assertions + overflow checks and by the one built without."""
    rng = random.Random(seed * 53 + 11)
    per = 60 if tier == "quick" else 1200
    out = []
    for kind in ALL:
        for j in range(per):
            sid = sid0 + len(out)
            if j % 3 == 2:
                sc = gen.concurrent(rng, sid, kind, policy="rand")
            elif j % 3 == 1:
                sc = gen.sequential(rng, sid, kind, p_skip=0.15)
            else:
                sc = gen.composite(rng, sid, kind)
                sc["policy"] = "rand"
            sc["tag"] = {"suite": "dual"}
            out.append(sc)
    for kind in ALL:
        ps = gen.partial(kind, 0)
        if tier == "quick":
            ps = ps[(seed % 2)::2]
        for sc in ps:
            sc["id"] = sid0 + len(out)
            sc["tag"] = {"suite": "dual_partial"}
            out.append(sc)
    # TLC-generated behaviours (explicit schedules, hence identical in both builds): a seeded sample
    gc, _ = gen_counter("quick", seed + 1, 0)
    gt, _ = gen_ticket("quick", seed + 1, 0)
    n = 700 if tier == "quick" else 8000
    for pool in (gc, gt):
        rng.shuffle(pool)
        for sc in pool[:n]:
            sc = dict(sc)
            sc["id"] = sid0 + len(out)
            sc["tag"] = {"suite": "dual_gen"}
            out.append(sc)
    return out, {"replayed": len(out)}


TWINS = [("cloned_slice", "slice"), ("copied_slice", "numslice"), ("cloned_iter", "refiter"), ("copied_iter", "numrefiter")]


def twin_suite(tier, seed, sid0):
    """C13: the same history / schedule on a cloned()/copied() adaptor and on the underlying iterator."""
    rng = random.Random(seed * 97 + 29)
    per = 150 if tier == "quick" else 3000
    a, b = [], []
    for ka, kb in TWINS:
        for j in range(per):
            sid = sid0 + len(a)
            if j % 3 == 0:
                sc = gen.concurrent(rng, sid, ka, p_skip=0.1, policy="rand")
            elif j % 3 == 1:
                sc = gen.sequential(rng, sid, ka, p_skip=0.15)
            else:
                sc = gen.composite(rng, sid, ka)
                sc["policy"] = "rand"
            sc["tag"] = {"suite": "twin"}
            sc2 = dict(sc)
            sc2["kind"] = kb
            a.append(sc)
            b.append(sc2)
    for ka, kb in TWINS:
        for sc in gen.partial(ka, 0):
            sc["id"] = sid0 + len(a)
            sc["tag"] = {"suite": "twin_partial"}
            sc2 = dict(sc)
            sc2["kind"] = kb
            a.append(sc)
            b.append(sc2)
    return (a, b), {"replayed": len(a) * 2}


def boundary_suite(tier, seed, sid0):
    """C16: scripts over the boundary domain enumerated by TLC from spec/Boundary.tla (range bounds in
    {0,1,2,3, 2^63-2..2^63+2, MAX-3..MAX} squared; chunk sizes {0,1,len-1,len,len+1,2^63-1,MAX-2,MAX}),
    executed sequentially on every kind."""
    rng = random.Random(seed * 17 + 3)
    gr = generate("bnd_range", "Boundary", {"MaxLen": 2 if tier == "quick" else 3, "Family": "range"}, "all", spec="BSpec", timeout=1500)
    gs = generate("bnd_sized", "Boundary", {"MaxLen": 3, "Family": "sized"}, "all", spec="BSpec", timeout=1500)
    out = []
    nr = 2500 if tier == "quick" else 60000
    ns = 2500 if tier == "quick" else 60000
    br = gr["behaviours"]
    bs = gs["behaviours"]
    rng.shuffle(br)
    rng.shuffle(bs)

    def steps(ops):
        st = []
        if any(o["k"] == "bnew" and o["n"] != 0 for o in ops) and not any(o["k"] == "intoseq" for o in ops):
            # later buffered pulls are the interesting ones (the first is always in range)
            ops = list(ops) + [{"k": "bnext", "n": 0, "take": 2}] * 3
        if any(o["k"] == "skip" for o in ops) and not any(o["k"] == "intoseq" for o in ops):
            # pulls after a skip: the counter must stay at/after the length however large the bounds are
            ops = list(ops) + [{"k": "next", "n": 0, "take": -1}] * 3 + [{"k": "len", "n": 0, "take": -1}]
        for o in ops:
            x = {"op": o["k"]}
            if o["k"] in ("chunk", "bnew", "foreach", "eforeach", "fold"):
                x["n"] = o["n"]
            if o["take"] >= 0:
                x["take"] = o["take"]
            st.append(x)
        return st
    for i, b in enumerate(br[:nr]):
        out.append({"id": sid0 + len(out), "kind": "range" if i % 4 else "rangeref", "len": 0, "start": b["start"], "end": b["end"],
                    "threads": [], "pre": steps(b["ops"]), "tag": {"suite": "boundary_range"}})
    kinds = ["slice", "vec", "array", "iter", "cloned_slice", "copied_slice", "refiter", "vecref", "vec_zst", "array_zst"]
    for i, b in enumerate(bs[:ns]):
        kind = kinds[i % len(kinds)]
        if kind in ("iter", "refiter") and any(o["k"] == "bnew" and o["n"] > 4096 for o in b["ops"]):
            kind = "vec"          # buffered pulls on wrapped iterators allocate chunk_size slots (documented): sizes <= 4096 only
        out.append({"id": sid0 + len(out), "kind": kind, "len": b["len"], "hint": "exact",
                    "threads": [], "pre": steps(b["ops"]), "tag": {"suite": "boundary_sized"}})
    meta = {"range_scripts": len(br), "sized_scripts": len(bs), "replayed": len(out),
            "exhaustive_export": gr["exhaustive"] and gs["exhaustive"], "states": gr["states"] + gs["states"]}
    return out, meta


def wrap_suite(tier, seed, sid0):
    """C07 has no bound on chunk sizes: one-shot chunk pulls with sizes near usize::MAX (which advance the ticket
    dispenser by that much) racing with single pulls on the wrapper of an arbitrary iterator."""
    rng = random.Random(seed * 389 + 1)
    out = []
    reps = 8 if tier == "quick" else 120
    for kind in TICKET:
        for big in (1999999999, 1999999998, 1500000000):        # usize::MAX, usize::MAX - 1, 2^63
            for _ in range(reps):
                others = [[{"op": rng.choice(["next", "nextid"])}] * rng.choice([1, 2]) for _ in range(rng.choice([2, 3]))]
                threads = [[{"op": "chunk", "n": big, "take": rng.choice([0, 1, 2])}]] + others
                rng.shuffle(threads)
                out.append({"id": sid0 + len(out), "kind": kind, "len": rng.randrange(1, 6), "hint": rng.choice(["exact", "inexact", "unbounded"]),
                            "threads": threads, "policy": "rand", "seed": rng.randrange(1 << 30),
                            "post": [{"op": "hasmore"}, {"op": "next"}, {"op": "drop"}], "tag": {"suite": "ticket_wrap"}})
    return out, {"replayed": len(out)}


def large_suite(tier, seed, sid0):
    """chunk sizes and lengths around 1024 / 2048 (typical block sizes of an implementation): few runs, long traces.
    Everything else in the suites uses sizes below 16, so a change that treats "large" requests differently would
    never be exercised."""
    rng = random.Random(seed * 577 + 3)
    out = []
    kinds = ["iter", "cloned_iter", "slice", "vec"] + (["refiter", "range", "array", "copied_slice"] if tier == "thorough" else [])
    reps = 1 if tier == "quick" else 4
    for kind in kinds:
        for (ln, n) in [(1030, 1025), (2060, 2048), (1500, 1024)]:
            if kind == "array":
                ln = 8          # arrays of the harness are short: the request is what is large
            for _ in range(reps):
                t1 = [{"op": "chunk", "n": n, "take": rng.choice([0, 2])}]
                t2 = [{"op": rng.choice(["next", "nextid"])}, {"op": "nextid"}]
                t3 = [{"op": "bnew", "n": n - 1}, {"op": "bnext", "take": 1}]
                threads = [t1, t2] + ([t3] if rng.random() < 0.5 else [])
                rng.shuffle(threads)
                sc = {"id": sid0 + len(out), "kind": kind, "len": ln, "threads": threads, "policy": "rand", "seed": rng.randrange(1 << 30),
                      "post": [{"op": "len"}, {"op": "chunk", "n": n, "take": 1}, {"op": "intoseq", "take": 2}],
                      "tag": {"suite": "large"}}
                if kind == "range":
                    sc["start"] = 7
                if kind in TICKET:
                    sc["hint"] = rng.choice(["exact", "unbounded"])
                out.append(sc)
    return out, {"replayed": len(out)}


def lowlevel_suite(tier, seed, sid0):
    """C14, dynamic clause: sequences of SAFE public calls including the low-level ones of the public trait
    `AtomicIter` (get, fetch_n, progress_and_get_begin_idx, counter().store) on the consuming kinds."""
    rng = random.Random(seed * 211 + 7)
    out = []
    reps = 40 if tier == "quick" else 800
    for kind in ["vec", "array", "iter", "slice", "range"]:
        for _ in range(reps):
            ln = rng.choice([1, 2, 3, 4])
            ops = []
            for _ in range(rng.randrange(1, 5)):
                r = rng.random()
                if r < 0.3:
                    ops.append({"op": "get", "n": rng.randrange(0, ln + 1)})
                elif r < 0.45:
                    ops.append({"op": "fetchn", "n": rng.randrange(0, ln + 2)})
                elif r < 0.6:
                    ops.append({"op": "pagbi", "n": rng.randrange(0, 3)})
                elif r < 0.75:
                    ops.append({"op": "cstore", "n": rng.randrange(0, ln + 2)})
                else:
                    ops += gen.pull_op(rng, ln, allow_comp=False)
            out.append({"id": sid0 + len(out), "kind": kind, "len": ln, "hint": "exact", "threads": [], "pre": ops,
                        "post": [{"op": rng.choice(["drop", "intoseq"])}], "tag": {"suite": "lowlevel"}})
    return out, {"replayed": len(out)}


def multi_suite(tier, seed, sid0):
    rng = random.Random(seed * 401 + 19)
    out = []
    reps = 250 if tier == "quick" else 5000
    for kind in ["slice", "vecref", "arrref", "range", "rangeref", "numslice"]:
        for _ in range(reps):
            sc = gen.multi(rng, sid0 + len(out), kind)
            sc["tag"] = {"suite": "multi"}
            out.append(sc)
    return out, {"replayed": len(out)}
