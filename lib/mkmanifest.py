#!/usr/bin/env python3
"""Regenerates /verif/MANIFEST.json from the table below (python3 lib/mkmanifest.py)."""
import json, os, subprocess

VERIF = os.path.dirname(os.path.dirname(os.path.abspath(__file__)))

E1E2 = ("TLC model checking of the implementation-level TLA+ model(s) with the spec/Props predicate(s) as invariants "
        "(every interleaving of the atomic steps for small constants), bound to the code by conformance: TLC-generated "
        "behaviours (all behaviours of the 2x1 configuration, simulated ones of larger configurations) and seeded random "
        "schedules are executed on the real crate under a deterministic baton scheduler, and TLC validates the recorded "
        "traces against TraceProps (same predicates) and TraceCounter/TraceTicket (every atomic step and result is the "
        "model's next action).")
NOTE = ("Trusted: TLC; the harness (scheduler, probe element/iterator, counting allocator) and the cfg-guarded shim of the two "
        "atomic types; sequentially consistent interleavings at the grain of atomic operations; bounds as listed in the "
        "evidence (threads <= 3, length <= 4 in E1; threads <= 3 in E2, length <= 9 except for the suite of sizes around 1024 / 2048).")

CHECKS = {
    "C01": ("TLA+ (Counter, Ticket) + TLC; invariants NoDup / NoLoss; trace validation; Apalache inductive invariants CounterInd / TicketInd (unbounded calls and counter values)", "6"),
    "C02": ("TLA+ (Counter, Ticket) + TLC; invariants Index / Value / TicketIsPosition; trace validation; Apalache inductive invariant TicketInd (index fidelity)", "6"),
    "C03": ("TLA+ (Counter, Ticket) + TLC; chunk-contract invariants; trace validation", "6"),
    "C04": ("TLA+ (Counter, Ticket) + TLC; Prefix / NoFalseEnd / RealTime / ThreadOrder; trace validation; Apalache inductive invariant CounterInd (prefix)", "6"),
    "C05": ("TLA+ (Counter, Ticket) + TLC; EndSticks / LenAfterEnd / NoWrap; trace validation", "6"),
    "C06": ("TLA+ (Counter, Ticket) + TLC; SkipSticks / LenAfterSkip (+ no dup / index / order in skip histories); trace validation", "6"),
    "C07": ("TLA+ (Ticket + HB) + TLC; Mutex / NoRace with release-acquire happens-before; TraceHB on logged orderings (next() and size_hint() of the wrapped iterator are accesses); Apalache inductive invariant TicketInd (mutual exclusion); directed huge-request suite", "6"),
    "C08": ("TLA+ (Counter with element slots and predicted destructor runs) + TLC; TraceCounter matches every DropElem event; TraceProps ledger", "6"),
    "C09": ("TLA+ (Counter: every in-flight step always enabled; Ticket: deadlock-freedom of the poll-reduced model) + TLC; frozen-thread schedules on the real crate", "6"),
    "C10": ("TLA+ (Counter, Ticket owner phase) + TLC; SeqWrong; trace validation", "6"),
    "C11": ("TLA+ (Counter, Ticket) + TLC; length-query predicates; trace validation", "6"),
    "C12": ("TLA+ (Counter, Ticket composite ops) + TLC; per-visit predicates; trace validation", "6"),
    "C13": ("TraceTwin: lock-step TLC comparison of adaptor and underlying iterator on identical histories/schedules; TraceProps ledger (clones, source intact)", "6"),
    "C14": ("TLA+ capability model (Bounds) enumerating minimal client programs with verdicts; rustc as executor (compile probes); ledger validation of low-level safe calls", "6"),
    "C15": ("TLA+ (Counter with the buffer of the consumed collection) + TLC; TraceCounter matches the allocator ledger; TraceProps Leak on every history", "6"),
    "C16": ("TLA+ ideal cursor on a sparse word domain (Boundary): TLC-enumerated boundary scripts, TraceBoundary validation in both overflow modes", "6"),
    "C17": ("TraceTwin: the same histories executed by the debug-assertion/overflow-check build and the optimized build, compared event by event by TLC; TraceProps Abort/Panic", "6"),
    "C18": ("TLA+ (Ticket with panic points) + TLC deadlock check; panic-armed schedules on the real crate", "6"),
    "C19": ("TLA+ (Counter with several iterators and clone) + TLC; multi-iterator histories validated by TraceProps / TraceCounter (pointer identity, source intact, per-iterator cursor)", "6"),
}


def main():
    props = [json.loads(l)["id"] for l in open(os.path.join(VERIF, "properties.jsonl"))]
    hooks = subprocess.run(["git", "-C", "/repo", "log", "--format=%h %s"], stdout=subprocess.PIPE, text=True).stdout.splitlines()
    hook_commits = [l.split()[0] for l in hooks if "verif hook" in l]
    checks = []
    for pid in props:
        if pid not in CHECKS:
            continue
        tech, ref = CHECKS[pid]
        level = LEVELS.get(pid, "model_checking")
        checks.append({
            "property_id": pid,
            "quick_cmd": "./check %s --tier quick" % pid,
            "thorough_cmd": "./check %s --tier thorough" % pid,
            "evidence_file": "/verif/evidence/%s.json" % pid,
            "replay_cmd_template": "./check %s --replay {path}" % pid,
            "engine": "tla-tlc-conformance",
            "level_claimed": {"category": level, "text": TEXTS.get(pid, E1E2), "design_ref": "DESIGN.md section " + ref},
            "level_note": NOTES.get(pid, NOTE),
            "technique": tech,
        })
    na = [{"property_id": p, "reason": NA.get(p, "check under construction in this round; not yet claimed")}
          for p in props if p not in CHECKS]
    m = {
        "version": 1,
        "setup_cmd": "cd /verif/harness && cargo build --offline --profile rel && cargo build --offline --profile dbg",
        "hooks": {
            "guard": "orx_concurrent_iter_verif",
            "enable": "rustflags --cfg orx_concurrent_iter_verif in /verif/harness/.cargo/config.toml (the harness has a path dependency on /repo)",
            "baseline_off_cmd": "/verif/baseline_off.sh",
            "source_commits": hook_commits,
            "add_only": True,
        },
        "engines": [{"name": "tla-tlc-conformance", "path": "/verif/check",
                     "serves_properties": [c["property_id"] for c in checks],
                     "kind_free_text": "explicit TLA+ specifications (spec/*.tla) model-checked with TLC and bound to the code by "
                                       "trace validation of scheduled executions of the real crate (harness/)"}],
        "checks": checks,
        "not_applicable": na,
        "notes": "See DESIGN.md. known_findings.json lists recorded and repaired defects.",
    }
    with open(os.path.join(VERIF, "MANIFEST.json"), "w") as f:
        json.dump(m, f, indent=1)
    print("checks:", len(checks), "not applicable:", len(na))


LEVELS = {"C13": "translation_validation", "C17": "translation_validation",
          "C14": "other", "C16": "exploration"}
TEXTS = {
    "C08x": "Ledger events of the real crate (every element's clone/drop, every delivery) for TLC-generated and seeded random histories incl. partial chunk consumption, skip, into_seq_iter, drop, panics, are folded by TLC (TraceProps) into moves[i]/drops[i] and checked to be exactly one per element at the end of every run and never more at any time. No separate ownership model is explored by TLC, hence 'exploration'.",
    "C15x": "The counting allocator's live bytes at the quiescent end of every history (TLC-generated and seeded random, consuming kinds, all element counts 0..9) must be zero; decided by TLC on the recorded trace (TraceProps Leak). Exploration of histories, not of a model.",
    "C13": "Relational: the adaptor and the underlying reference-yielding iterator execute the same history under the same schedule; TLC (TraceTwin) compares the two recorded traces event by event after hiding addresses, clone events and allocator ledger; both traces are separately validated by TraceProps/TraceCounter/TraceTicket.",
    "C17": "Relational: every history is executed by the harness built with debug assertions + overflow checks and by the one built without; TLC (TraceTwin) requires the two traces to be identical, and TraceProps rejects any abort or unexpected panic in either.",
    "C16": "TLC enumerates scripts over the boundary domain from the ideal-arithmetic cursor model (Boundary); every recorded result of the real crate, in both overflow modes, must equal the ideal result (TraceBoundary). Inputs are enumerated, schedules are not (sequential property).",
    "C14": "Static clauses: TLC enumerates a finite family of minimal client programs from a capability model (Bounds) together with the verdict the type system must give; the compiler + current crate execute them (compile probes). Dynamic clause: ledger validation of sequences of safe public calls. No TLA+ statement about Rust's type system is proved.",
}
NOTES = {}
NA = {}

if __name__ == "__main__":
    main()
