"""Scenario generators for the harness-driven (implementation -> specification) suites.

Every generator is a pure function of its random.Random instance, so VERIF_SEED reproduces a suite.
"""
import random

KNOWN_KINDS = ["slice", "vecref", "arrref", "range", "rangeref", "vec", "array", "cloned_slice", "copied_slice", "numslice"]
TICKET_KINDS = ["iter", "refiter", "numrefiter", "cloned_iter", "copied_iter"]
ALL_KINDS = KNOWN_KINDS + TICKET_KINDS
CONSUMING = ["vec", "array", "iter"]
ARRAY_LENS = [0, 1, 2, 3, 4, 5, 6, 8]


def sizes(ln):
    s = {1, 2, 3, max(1, ln - 1), max(1, ln), ln + 1, ln + 2}
    return sorted(s)


def pull_op(rng, ln, allow_buf=True, allow_comp=True):
    r = rng.random()
    n = rng.choice(sizes(ln))
    if r < 0.22:
        return [{"op": "next"}]
    if r < 0.40:
        return [{"op": "nextid"}]
    if r < 0.62:
        st = {"op": "chunk", "n": 0 if rng.random() < 0.06 else n}     # a one-shot pull of size zero is legal
        if rng.random() < 0.35:
            st["take"] = rng.randrange(0, n + 1)
        return [st]
    if r < 0.80 and allow_buf:
        ops = [{"op": "bnew", "n": n}]
        for _ in range(rng.randrange(1, 4)):
            st = {"op": "bnext"}
            if rng.random() < 0.4:
                st["take"] = rng.randrange(0, n + 1)
            ops.append(st)
        if rng.random() < 0.5:
            ops.append({"op": "bdrop"})
        return ops
    if allow_comp:
        c = rng.choice([1, 1, 2, 3, ln + 1])
        k = rng.choice(["foreach", "eforeach", "fold", "values", "idsvalues"])
        st = {"op": k, "n": c}
        if k in ("values", "idsvalues"):
            st = {"op": k}
            if rng.random() < 0.6:
                st["take"] = rng.randrange(0, ln + 2)
        return [st]
    return [{"op": "next"}]


CLONE_KINDS = ("cloned_slice", "cloned_iter")


def decorate(sc):
    """chooses how the clients take the items out of the chunk iterators (next / nth / fold / find, and how a
    partly consumed chunk is discarded: dropped, nth(MAX), count(), last()); a separate random stream per scenario,
    so that the programs themselves stay what they were"""
    r = random.Random(sc["id"] * 2654435761 % (1 << 31))
    fin = 0 if sc["kind"] in CLONE_KINDS else 4       # discarding through the iterator clones the rest of a cloned() chunk
    if sc["kind"] in ("range", "rangeref") and sc.get("len") == 0 and "end" not in sc and r.random() < 0.6:
        # an empty range may also be written with its bounds inverted
        sc["start"] = r.choice([3, 5])
        sc["end"] = sc["start"] - r.choice([1, 2])
    for prog in [sc.get("pre", [])] + sc.get("threads", []) + [sc.get("post", [])]:
        for st in prog:
            if st["op"] in ("chunk", "bnext") and r.random() < 0.45:
                st["via"] = r.randrange(0, 4) | (fin if r.random() < 0.7 else 0)
    return sc


def partial(kind, sid0):
    """every way of consuming a chunk partly and pulling again (one-shot and buffered), small sizes, sequential;
    the second chunk is taken through every way of discarding its rest (drop, fold, nth, count, last)"""
    out = []
    j = 0
    fins = (0, 1, 2, 3) if kind in CLONE_KINDS else (0, 4, 5, 6, 7)
    for ln in (4, 5, 6):
        for n in (2, 3):
            for k1 in range(0, n + 1):
                for k2 in (None, 1):
                    for buffered in (True, False):
                        for bvia in (fins if k2 is not None else (j % 4,)):
                            j += 1
                            avia = (j % 4) | (4 if kind not in CLONE_KINDS and j % 5 == 0 else 0)
                            a = {"op": "bnext" if buffered else "chunk", "take": k1, "via": avia}
                            b = {"op": "bnext" if buffered else "chunk", "via": bvia}
                            if k2 is not None:
                                b["take"] = k2
                            c = {"op": "bnext" if buffered else "chunk"}
                            if not buffered:
                                a["n"], b["n"], c["n"] = n, n, n + 1
                            pre = ([{"op": "bnew", "n": n}] if buffered else []) + [a, b, c]
                            if buffered and j % 3 == 0:
                                pre.append({"op": "bdrop"})
                            sc = {"id": sid0 + len(out), "kind": kind, "len": ln, "threads": [], "pre": pre,
                                  "post": [{"op": "len"}, {"op": "intoseq"} if j % 2 else {"op": "drop"}]}
                            if kind in ("range", "rangeref"):
                                sc["start"] = (0, 5)[j % 2]
                            if kind in TICKET_KINDS:
                                sc["hint"] = ("exact", "inexact", "unbounded")[j % 3]
                            out.append(sc)
    return out


def query_op(rng):
    return [{"op": rng.choice(["len", "hasmore"])}]


def thread_prog(rng, ln, nops, p_skip=0.0, p_query=0.15):
    prog = []
    while len(prog) < nops:
        r = rng.random()
        if r < p_skip:
            prog += [{"op": "skip"}]
        elif r < p_skip + p_query:
            prog += query_op(rng)
        else:
            prog += pull_op(rng, ln)
    return prog


def post_phase(rng, kind, ln, drain=True):
    post = []
    if rng.random() < 0.7:
        post += query_op(rng)
    if drain and rng.random() < 0.75:
        post += [rng.choice([{"op": "values"}, {"op": "foreach", "n": 1}, {"op": "foreach", "n": 2},
                             {"op": "fold", "n": 3}])]
        # pulls past the end (C05) and definitive answers (C11)
        for _ in range(rng.randrange(0, 4)):
            post += rng.choice([[{"op": "next"}], [{"op": "chunk", "n": rng.choice(sizes(ln))}],
                                [{"op": "hasmore"}], [{"op": "len"}],
                                [{"op": "bnew", "n": 2}, {"op": "bnext"}]])
    r = rng.random()
    if r < 0.5:
        st = {"op": "intoseq"}
        if rng.random() < 0.3:
            st["take"] = rng.randrange(0, ln + 1)
        post += [st]
    elif r < 0.8:
        post += [{"op": "drop"}]
    return post


CLONABLE = ("slice", "vecref", "arrref", "range", "rangeref", "numslice")


def concurrent(rng, sid, kind, ln=None, nthreads=None, nops=None, p_skip=0.0, hint=None, policy=None):
    if ln is None:
        ln = rng.choice(ARRAY_LENS) if kind in ("array", "arrref") else rng.randrange(0, 9)
    if nthreads is None:
        nthreads = rng.choice([2, 2, 3])
    if nops is None:
        nops = rng.randrange(1, 4)
    sc = {"id": sid, "kind": kind, "len": ln,
          "threads": [thread_prog(rng, ln, nops, p_skip=p_skip) for _ in range(nthreads)],
          "policy": policy or rng.choice(["rand", "sticky", "sticky"]),
          "seed": rng.randrange(1 << 30),
          "post": post_phase(rng, kind, ln)}
    if kind == "range":
        sc["start"] = rng.choice([0, 0, 1, 5, 17])
    if kind in TICKET_KINDS:
        sc["hint"] = hint or rng.choice(["exact", "exact", "inexact", "unbounded"])
    if rng.random() < 0.3:
        sc["pre"] = thread_prog(rng, ln, rng.randrange(1, 3), p_skip=0.0)
    if kind in CLONABLE and rng.random() < 0.25:
        # a thread clones the shared iterator while the others pull, and drains its clone
        t = rng.randrange(nthreads)
        sc["threads"][t].insert(rng.randrange(len(sc["threads"][t]) + 1), {"op": "cloneuse"})
    return decorate(sc)


def skip_storm(rng, sid, kind, ln=None):
    """several skip_to_end calls racing with each other (and a query) after the counter has overshot the end"""
    if ln is None:
        ln = rng.choice(ARRAY_LENS) if kind in ("array", "arrref") else rng.randrange(1, 7)
    pre = [{"op": "chunk", "n": ln + rng.choice([1, 2, 3])}] if rng.random() < 0.7 else thread_prog(rng, ln, 2)
    threads = [[{"op": "skip"}] * rng.choice([1, 2]) + ([{"op": rng.choice(["len", "next"])}] if rng.random() < 0.4 else [])
               for _ in range(rng.choice([2, 3]))]
    sc = {"id": sid, "kind": kind, "len": ln, "pre": pre, "threads": threads, "policy": "rand", "seed": rng.randrange(1 << 30),
          "post": [{"op": "hasmore"}, {"op": "next"}, {"op": "intoseq"}]}
    if kind in ("range", "rangeref"):
        sc["start"] = rng.choice([0, 4])
    if kind in TICKET_KINDS:
        sc["hint"] = "exact"
    return sc


def sequential(rng, sid, kind, ln=None, nops=None, p_skip=0.1):
    if ln is None:
        ln = rng.choice(ARRAY_LENS) if kind in ("array", "arrref") else rng.randrange(0, 7)
    if nops is None:
        nops = rng.randrange(0, 6)
    sc = {"id": sid, "kind": kind, "len": ln, "threads": [],
          "pre": thread_prog(rng, ln, nops, p_skip=p_skip, p_query=0.25),
          "post": post_phase(rng, kind, ln, drain=rng.random() < 0.5)}
    if kind == "range":
        sc["start"] = rng.choice([0, 0, 1, 5, 17])
    if kind in TICKET_KINDS:
        sc["hint"] = rng.choice(["exact", "exact", "inexact", "unbounded"])
    return decorate(sc)


def composite(rng, sid, kind, ln=None):
    """for_each / enumerate_for_each / fold on every thread with mixed chunk sizes (1 takes a different code
    path than > 1), sometimes mixed with direct pulls by another thread."""
    if ln is None:
        ln = rng.choice(ARRAY_LENS) if kind in ("array", "arrref") else rng.randrange(0, 10)
    nthreads = rng.choice([2, 3])
    threads = []
    for t in range(nthreads):
        if t > 0 and rng.random() < 0.25:
            threads.append(thread_prog(rng, ln, rng.randrange(1, 3)))
        else:
            threads.append([{"op": rng.choice(["foreach", "eforeach", "fold"]),
                             "n": rng.choice([1, 1, 2, 3, ln + 1])}])
    sc = {"id": sid, "kind": kind, "len": ln, "threads": threads,
          "policy": rng.choice(["rand", "sticky"]), "seed": rng.randrange(1 << 30),
          "post": [{"op": "hasmore"}, {"op": "next"}] + ([{"op": "intoseq"}] if rng.random() < 0.5 else [])}
    if kind == "range":
        sc["start"] = rng.choice([0, 3])
    if kind in TICKET_KINDS:
        sc["hint"] = rng.choice(["exact", "inexact", "unbounded"])
    return decorate(sc)


def multi(rng, sid, kind, ln=None):
    """C19: several iterators over one collection and clones created at arbitrary points, interleaved
    operation histories (sequential, owner thread)."""
    if ln is None:
        ln = rng.choice(ARRAY_LENS) if kind == "arrref" else rng.randrange(0, 7)
    alive = [0]
    nits = 1
    ops = []
    for _ in range(rng.randrange(2, 9)):
        r = rng.random()
        it = rng.choice(alive) if alive else None
        if it is None:
            break
        if r < 0.25 and nits < 4:
            ops.append({"op": "clone", "it": it})
            alive.append(nits)
            nits += 1
        elif r < 0.33 and len(alive) > 1:
            st = {"op": rng.choice(["intoseq", "drop"]), "it": it}
            ops.append(st)
            alive.remove(it)
        else:
            for o in (query_op(rng) if rng.random() < 0.2 else
                      ([{"op": "skip"}] if rng.random() < 0.08 else pull_op(rng, ln, allow_buf=False))):
                o = dict(o)
                o["it"] = it
                ops.append(o)
    post = []
    for it in alive:
        if rng.random() < 0.6:
            post.append({"op": "intoseq", "it": it})
    sc = {"id": sid, "kind": kind, "len": ln, "threads": [], "pre": ops, "post": post}
    if kind in ("range", "rangeref"):
        sc["start"] = rng.choice([0, 2, 9])
    return sc


def tri(rng, sid, kind, ln=None):
    """three parties: a pull in flight, a second pull queued behind it (possibly overshooting the end), and a third
    thread that skips or queries twice - the situations in which a waiter, a publisher and an observer interact"""
    if ln is None:
        ln = rng.choice(ARRAY_LENS[2:]) if kind in ("array", "arrref") else rng.randrange(2, 8)
    n = rng.choice([2, 3])
    first = rng.choice([[{"op": "bnew", "n": n}, {"op": "bnext"}], [{"op": "chunk", "n": rng.choice([1, 2])}],
                        [{"op": "next"}], [{"op": "bnew", "n": n}, {"op": "bnext", "take": 1}, {"op": "bnext"}]])
    second = rng.choice([[{"op": "next"}], [{"op": "chunk", "n": ln + rng.choice([0, 1, 3])}], [{"op": "nextid"}],
                         [{"op": "bnew", "n": n}, {"op": "bnext"}], [{"op": "foreach", "n": rng.choice([1, 2])}]])
    third = rng.choice([[{"op": "skip"}], [{"op": "len"}, {"op": "len"}], [{"op": "hasmore"}, {"op": "hasmore"}, {"op": "next"}],
                        [{"op": "len"}, {"op": "skip"}, {"op": "hasmore"}]])
    threads = [first, second, third]
    rng.shuffle(threads)
    sc = {"id": sid, "kind": kind, "len": ln, "threads": threads, "policy": rng.choice(["rand", "sticky", "sticky"]),
          "seed": rng.randrange(1 << 30), "post": [{"op": "hasmore"}, {"op": "values"}, {"op": "next"}, {"op": "intoseq"}]}
    if kind in ("range", "rangeref"):
        sc["start"] = rng.choice([0, 3])
    if kind in TICKET_KINDS:
        sc["hint"] = rng.choice(["exact", "exact", "inexact"])
    return decorate(sc)
