"""Engine shared by all checks: build the harness from /repo's working tree, execute scenario suites on
the real crate, validate the recorded traces with TLC against the trace specifications, run the model
checking configurations (E1), cache results keyed by the content of /repo + /verif."""
import hashlib, json, os, re, subprocess, sys, time, shutil, concurrent.futures as cf

VERIF = os.path.dirname(os.path.dirname(os.path.abspath(__file__)))
sys.path.insert(0, os.path.join(VERIF, "lib"))
from tlcrun import run_tlc, write_cfg, SPEC, WORK  # noqa

REPO = "/repo"
HARNESS = os.path.join(VERIF, "harness")
CACHE = os.path.join(WORK, "cache")
JOBS = int(os.environ.get("VERIF_JOBS", "8"))
TRACE_JVM = "-Xss1g -Xmx3g -Dtlc2.tool.queue.IStateQueue=StateDeque"


class ToolError(Exception):
    pass


def sh(cmd, **kw):
    return subprocess.run(cmd, stdout=subprocess.PIPE, stderr=subprocess.STDOUT, text=True, **kw)


def tree_hash(paths, exts=None):
    h = hashlib.sha256()
    for root in paths:
        if os.path.isfile(root):
            files = [root]
        else:
            files = []
            for d, dirs, fs in os.walk(root):
                dirs[:] = sorted(x for x in dirs if x not in ("target", ".git", "work", "evidence", "replays", "__pycache__"))
                for f in sorted(fs):
                    if exts is None or os.path.splitext(f)[1] in exts:
                        files.append(os.path.join(d, f))
        for f in files:
            h.update(f.encode())
            with open(f, "rb") as fh:
                h.update(fh.read())
    return h.hexdigest()[:20]


_repo_hash = None


def repo_hash():
    global _repo_hash
    if _repo_hash is None:
        _repo_hash = tree_hash([os.path.join(REPO, "src"), os.path.join(REPO, "Cargo.toml")])
    return _repo_hash


def verif_hash():
    return tree_hash([os.path.join(VERIF, "spec"), os.path.join(VERIF, "lib"),
                      os.path.join(HARNESS, "src"), os.path.join(HARNESS, "Cargo.toml")],
                     exts={".tla", ".py", ".rs", ".toml", ".cfg"})


def spec_hash():
    return tree_hash([os.path.join(VERIF, "spec"), os.path.join(VERIF, "lib", "tlcrun.py")], exts={".tla", ".py"})


def canon(constants):
    """order-independent, process-independent rendering of a constants dict (sets of strings have no stable str())"""
    return sorted((k, sorted(map(str, v)) if isinstance(v, (set, frozenset, list, tuple)) else str(v))
                  for k, v in constants.items())


def cache_get(key):
    p = os.path.join(CACHE, key + ".json")
    if os.path.exists(p) and not os.environ.get("VERIF_NOCACHE"):
        try:
            with open(p) as f:
                return json.load(f)
        except Exception:
            return None
    return None


def cache_put(key, val):
    os.makedirs(CACHE, exist_ok=True)
    tmp = os.path.join(CACHE, key + ".tmp%d" % os.getpid())
    with open(tmp, "w") as f:
        json.dump(val, f)
    os.replace(tmp, os.path.join(CACHE, key + ".json"))


# ---------------------------------------------------------------------------------------------------
# harness
# ---------------------------------------------------------------------------------------------------
_built = set()


def build_harness(profile="rel"):
    """cargo build of the harness against /repo's current working tree (hooks enabled by the harness'
    .cargo/config.toml).  A compile error of the crate is a tool error for dynamic checks."""
    if profile in _built:
        return os.path.join(HARNESS, "target", profile, "vh")
    if not os.path.exists(os.path.join(HARNESS, "Cargo.lock")):
        shutil.copy(os.path.join(REPO, "Cargo.lock"), os.path.join(HARNESS, "Cargo.lock"))
    p = sh(["cargo", "build", "--offline", "--profile", profile], cwd=HARNESS)
    if p.returncode != 0:
        tail = "\n".join(p.stdout.splitlines()[-40:])
        raise ToolError("harness build failed (profile %s):\n%s" % (profile, tail))
    _built.add(profile)
    return os.path.join(HARNESS, "target", profile, "vh")


def run_scenarios(scenarios, workdir, profile="rel", jobs=None):
    """Executes the scenarios on the real crate; returns the list of trace part files."""
    jobs = jobs or JOBS
    exe = build_harness(profile)
    os.makedirs(workdir, exist_ok=True)
    scn = os.path.join(workdir, "scenarios.ndjson")
    with open(scn, "w") as f:
        for s in scenarios:
            f.write(json.dumps(s, separators=(",", ":")) + "\n")
    prefix = os.path.join(workdir, "trace")
    for old in os.listdir(workdir):
        if old.startswith("trace.") and old.endswith(".ndjson"):
            os.remove(os.path.join(workdir, old))
    # watchdog: the harness reports hangs of the code under test itself (scheduler); if the harness process does not
    # come back at all that is a defect of the tooling, reported as such (exit 2) instead of waiting forever
    limit = 1800 + len(scenarios) // 10
    try:
        p = sh([exe, "run", scn, prefix, "--jobs", str(jobs)], timeout=limit)
    except subprocess.TimeoutExpired:
        sh(["pkill", "-f", scn])
        raise ToolError("harness did not finish %d scenarios within %d s" % (len(scenarios), limit))
    if p.returncode != 0:
        raise ToolError("harness failed: " + p.stdout[-2000:])
    info = json.loads(p.stdout.strip().splitlines()[-1])
    parts = sorted((os.path.join(workdir, x) for x in os.listdir(workdir)
                    if x.startswith("trace.") and x.endswith(".ndjson")),
                   key=lambda x: int(x.split(".")[-2]))
    return parts, info


# ---------------------------------------------------------------------------------------------------
# trace validation
# ---------------------------------------------------------------------------------------------------
TRACE_SPECS = {
    "TraceTwin": "TraceTwin.cfg",
    "TraceBoundary": "TraceBoundary.cfg",
    "TraceProps": "TraceProps.cfg",
    "TraceHB": "TraceHB.cfg",
    "TraceCounter": "TraceCounter.cfg",
    "TraceTicket": "TraceTicket.cfg",
}


def _validate_one(spec, part, timeout):
    r = run_tlc(spec, os.path.join(SPEC, TRACE_SPECS[spec]), workers=1, timeout=timeout,
                env={"TRACE": part}, jvm=TRACE_JVM)
    out = {"spec": spec, "part": part, "wall": r.wall, "states": r.distinct}
    m = re.search(r'<<"CONSUMED", (\d+), (\d+)>>', r.out)
    if not m:
        raise ToolError("%s on %s: no verdict\n%s" % (spec, part, r.out[-1500:]))
    out["consumed"], out["total"] = int(m.group(1)), int(m.group(2))
    if out["consumed"] != out["total"]:
        um = re.search(r'<<"UNMATCHED".*', r.out)
        if spec in ("TraceCounter", "TraceTicket"):
            # the implementation-level model cannot explain an event at all: reported as drift (the property-level
            # specifications decide the verdict), never as an alarm or a tool error
            for tag in ("DIV", "MATCHED"):
                v = r.printed(tag)
                if v:
                    out[tag.lower()] = v[0]
            out.setdefault("div", []).append([-1, out["consumed"] + 1, "unconsumed: " + (um.group(0)[:120] if um else "")])
            return out
        raise ToolError("%s on %s: trace not consumed: %s" % (spec, part, um.group(0)[:500] if um else ""))
    for tag in ("VIOL", "DIV", "SEEN", "MATCHED"):
        v = r.printed(tag)
        if v:
            out[tag.lower()] = v[0]
    return out


def validate(parts, specs, timeout=1800):
    """Runs every trace spec on every part (parallel, one JVM each).  Returns
    {spec: {"viol": [[run, flag]...], "div": [[run, line, what]...], "events": n, ...}}"""
    res = {s: {"viol": [], "div": [], "events": 0, "wall": 0.0, "seen": {}, "matched": [0, 0, 0]} for s in specs}
    with cf.ThreadPoolExecutor(max_workers=JOBS) as ex:
        futs = [ex.submit(_validate_one, s, p, timeout) for s in specs for p in parts if os.path.getsize(p) > 0]
        for f in futs:
            o = f.result()
            r = res[o["spec"]]
            r["events"] += o["total"]
            r["wall"] += o["wall"]
            r["viol"] += o.get("viol", [])
            r["div"] += o.get("div", [])
            for k, v in (o.get("seen") or {}).items():
                r["seen"][k] = r["seen"].get(k, 0) + v
            if o.get("matched"):
                m = o["matched"]
                if isinstance(m, dict):
                    if not isinstance(r["matched"], dict):
                        r["matched"] = {}
                    for k, v in m.items():
                        r["matched"][k] = r["matched"].get(k, 0) + v
                else:
                    r["matched"] = [a + b for a, b in zip(r["matched"], m)]
    return res


def load_runs(parts):
    """run id -> list of parsed events."""
    runs = {}
    cur = None
    for p in parts:
        with open(p) as f:
            for line in f:
                e = json.loads(line)
                if e["e"] == "Reset":
                    cur = []
                    runs[e["run"]] = cur
                if cur is not None:
                    cur.append(e)
    return runs


# ---------------------------------------------------------------------------------------------------
# model checking (E1), cached by the content of the specifications only
# ---------------------------------------------------------------------------------------------------
def model_check(name, module, constants, invariants, view="view", deadlock=False, workers=8, timeout=1500,
                spec="Spec", properties=()):
    key = "e1_%s_%s" % (name, hashlib.sha256(json.dumps(
        [spec_hash(), module, canon(constants), list(invariants), view, deadlock,
         spec, list(properties)], sort_keys=True).encode()).hexdigest()[:16])
    c = cache_get(key)
    if c:
        c["cached"] = True
        return c
    cfgdir = os.path.join(WORK, "cfg")
    os.makedirs(cfgdir, exist_ok=True)
    cfg = os.path.join(cfgdir, "%s_%d.cfg" % (name, os.getpid()))
    write_cfg(cfg, spec=spec, constants=constants, invariants=invariants, view=view, deadlock=deadlock,
              properties=properties)
    r = run_tlc(module, cfg, workers=workers, timeout=timeout)
    os.remove(cfg)
    out = {"name": name, "module": module, "ok": r.ok, "violated": r.violated, "states": r.distinct,
           "transitions": r.generated, "depth": r.depth, "wall": round(r.wall, 1), "timeout": r.timeout,
           "constants": {k: (sorted(v) if isinstance(v, (set, frozenset)) else v) for k, v in constants.items()},
           "invariants": list(invariants), "deadlock_checked": deadlock, "cached": False}
    if r.violated:
        out["cex"] = r.printed("CEX")[:1]
        out["cex_text"] = r.counterexample()[:3000]
    if r.error and not r.timeout:
        raise ToolError("TLC error in %s:\n%s" % (name, r.out[-2500:]))
    if not r.timeout:
        cache_put(key, out)
    return out


def generate(name, module, constants, mode, n=0, depth=200, seed=1, timeout=900, spec="SpecGen", tag="SCN", inv="GenEmit"):
    """Behaviours of the model as harness scenarios: mode 'all' (every behaviour, history variable makes
    each path a state) or 'sim' (TLC -simulate).  Returns list of h records {sched, prog}."""
    key = "gen_%s_%s" % (name, hashlib.sha256(json.dumps(
        [spec_hash(), module, canon(constants), mode, n, depth, seed, spec, tag, inv],
        sort_keys=True).encode()).hexdigest()[:16])
    c = cache_get(key)
    if c:
        return c
    cfgdir = os.path.join(WORK, "cfg")
    os.makedirs(cfgdir, exist_ok=True)
    cfg = os.path.join(cfgdir, "%s_%d.cfg" % (name, os.getpid()))
    write_cfg(cfg, spec=spec, constants=constants, invariants=[inv], view=None, deadlock=False)
    extra = []
    if mode == "sim":
        extra = ["-simulate", "num=%d" % n, "-depth", str(depth), "-seed", str(seed)]
    r = run_tlc(module, cfg, workers=1 if mode == "all" else 4, timeout=timeout, extra=extra)
    os.remove(cfg)
    if r.error and not r.timeout and tag not in r.out:
        raise ToolError("TLC generation error in %s:\n%s" % (name, r.out[-2500:]))
    hs = r.printed(tag)
    seen = set()
    out = []
    for hrec in hs:
        k = json.dumps(hrec, sort_keys=True)
        if k not in seen:
            seen.add(k)
            out.append(hrec)
    res = {"behaviours": out, "states": r.distinct, "transitions": r.generated, "wall": round(r.wall, 1),
           "exhaustive": mode == "all" and r.ok}
    cache_put(key, res)
    return res


def prog_of(hrec, t):
    p = hrec["prog"]
    if isinstance(p, dict):
        return p.get(str(t), [])
    # ToJson renders a function with domain 1..n as an array
    return p[t - 1] if 1 <= t <= len(p) else []


SIZED = {"chunk", "bnew", "foreach", "eforeach", "fold"}


def steps_of(ops):
    out = []
    for o in ops:
        st = {"op": o["k"]}
        if o["k"] in SIZED:
            st["n"] = o["n"]
        if o.get("take", -1) >= 0:
            st["take"] = o["take"]
        if o.get("it", 0):
            st["it"] = o["it"]
        out.append(st)
    return out


def scenario_of(hrec, sid, kind, ln, nthreads, extra=None):
    sc = {"id": sid, "kind": kind, "len": ln,
          "threads": [steps_of(prog_of(hrec, t)) for t in range(1, nthreads + 1)],
          "sched": hrec["sched"], "policy": "rr", "post": steps_of(prog_of(hrec, 0))}
    if not sc["post"]:
        # standard epilogue of generated behaviours: make the final shared state observable
        sc["post"] = [[{"op": "hasmore"}, {"op": "next"}, {"op": "intoseq"}], [{"op": "intoseq"}],
                      [{"op": "len"}, {"op": "intoseq", "take": 1}], [{"op": "chunk", "n": 2}, {"op": "hasmore"}]][sid % 4]
    if extra:
        sc.update(extra)
    return sc


def validate_twin(parts_a, parts_b, mode, timeout=1800):
    """TraceTwin on corresponding shards of two batches that executed the same scenarios."""
    assert len(parts_a) == len(parts_b), "shard mismatch"
    res = {"viol": [], "events": 0, "wall": 0.0, "matched": [0, 0, 0], "div": []}

    def one(a, b):
        r = run_tlc("TraceTwin", os.path.join(SPEC, "TraceTwin.cfg"), workers=1, timeout=timeout,
                    env={"TRACE": a, "TRACE2": b, "TWINMODE": mode}, jvm=TRACE_JVM)
        m = re.search(r'<<"CONSUMED", (\d+), (\d+)>>', r.out)
        if not m or m.group(1) != m.group(2):
            raise ToolError("TraceTwin on %s / %s: %s" % (a, b, r.out[-1500:]))
        return {"viol": (r.printed("VIOL") or [[]])[0], "total": int(m.group(2)), "wall": r.wall,
                "matched": (r.printed("MATCHED") or [[0, 0, 0]])[0]}
    with cf.ThreadPoolExecutor(max_workers=JOBS) as ex:
        for o in ex.map(lambda ab: one(*ab), list(zip(parts_a, parts_b))):
            res["viol"] += o["viol"]
            res["events"] += o["total"]
            res["wall"] += o["wall"]
            res["matched"] = [x + y for x, y in zip(res["matched"], o["matched"])]
    return res


IND_MODULES = {
    "CounterInd": "3 threads, length 4, requests <= 6; unbounded number of calls and counter values",
    "TicketInd": "3 threads, chunk sizes <= 5; unbounded number of calls, counter values and source length",
}


def apalache_inductive(run_if_missing, timeout=2400, module="CounterInd"):
    """Inductive invariant of spec/CounterInd.tla (reservation scheme of the known-size kinds) or spec/TicketInd.tla
    (ticket protocol of the Iterator wrapper) with Apalache:
    Init => IndInv; IndInv /\\ Next => IndInv'; IndInv => Safe.  Cached by the content of the file."""
    path = os.path.join(SPEC, module + ".tla")
    key = "apalache_%s" % tree_hash([path])
    c = cache_get(key)
    if c or not run_if_missing:
        return c
    obligations = [("Init => IndInv", ["--init=Init", "--inv=IndInv", "--length=0"]),
                   ("IndInv /\\ Next => IndInv'", ["--init=IndInit", "--inv=IndInv", "--length=1"]),
                   ("IndInv => Safe", ["--init=IndInit", "--inv=Safe", "--length=0"])]
    out = {"file": "spec/%s.tla" % module, "obligations": [], "constants": IND_MODULES[module]}
    wd = os.path.join(WORK, "apalache_" + module)
    os.makedirs(wd, exist_ok=True)
    for name, args in obligations:
        t0 = time.time()
        p = sh(["timeout", str(timeout), "apalache-mc", "check", "--cinit=ConstInit"] + args + ["--out-dir=" + wd, path], cwd=wd)
        ok = "The outcome is: NoError" in p.stdout
        out["obligations"].append({"name": name, "discharged": ok, "wall": round(time.time() - t0, 1)})
        if not ok and p.returncode == 124:
            raise ToolError("apalache timed out on " + name)
    shutil.rmtree(wd, ignore_errors=True)
    out["all_discharged"] = all(o["discharged"] for o in out["obligations"])
    cache_put(key, out)
    return out
