#!/bin/bash
# usage: try_mutant.sh <name> <prop>...   applies seeded/<name>/patch.diff to /repo, runs the quick checks, reverts.
NAME=$1; shift
cd /verif
git -C /repo diff --quiet || { echo "/repo is dirty"; exit 2; }
PATCH=/verif/seeded/$NAME/patch.diff
[ -f /verif/seeded/$NAME/patch.rebased.diff ] && PATCH=/verif/seeded/$NAME/patch.rebased.diff
git -C /repo apply $PATCH || { echo "PATCH DOES NOT APPLY: $NAME"; exit 2; }
trap 'git -C /repo checkout -- . ; git -C /repo clean -fdq src' EXIT
RES=""
for P in "$@"; do
  OUT=$(./check $P --tier quick 2>&1); RC=$?
  echo "--- $NAME / $P: rc=$RC"
  echo "$OUT" | grep -E "VIOLATION|KNOWN-FINDING|TOOL-ERROR|NOTE|held|VIOLATED" | cut -c1-240 | head -8
  RES="$RES $P:$RC"
done
echo "RESULT $NAME$RES"
