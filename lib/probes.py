"""C14: renders the rows enumerated by TLC from spec/Bounds.tla as minimal Rust programs, compiles each
against the current crate (cargo check in /verif/probes) and compares the compiler's verdict with the
model's: a program the model marks `reject` must not compile (and must fail with a thread-safety or
borrow error, not with something unrelated); a program marked `accept` must compile."""
import json, os, re, subprocess, hashlib, shutil, concurrent.futures as cf

PROBES = "/verif/probes"

ELEM = {  # (send, sync) -> (type, constructor expression)
    (True, True): ("u64", "7u64"),
    (True, False): ("std::cell::Cell<u64>", "std::cell::Cell::new(7u64)"),
    (False, True): ("NoSend", "NoSend(std::ptr::null())"),
    (False, False): ("std::rc::Rc<u64>", "std::rc::Rc::new(7u64)"),
}
PRELUDE = """#![allow(unused, dead_code)]
use orx_concurrent_iter::*;
#[derive(Clone)]
struct NoSend(*const u8);
unsafe impl Sync for NoSend {}
struct Wrapped<T, M> { items: std::vec::IntoIter<T>, _m: M }
impl<T, M> Iterator for Wrapped<T, M> { type Item = T; fn next(&mut self) -> Option<T> { self.items.next() } }
"""


USER = """
struct Mine<'a> {{ data: &'a [u64], counter: AtomicCounter, _m: {ity} }}
impl<'a> orx_concurrent_iter::iter::atomic_iter::AtomicIter<&'a u64> for Mine<'a> {{
    fn counter(&self) -> &AtomicCounter {{ &self.counter }}
    fn progress_and_get_begin_idx(&self, n: usize) -> Option<usize> {{
        let b = self.counter.fetch_and_add(n);
        if b < self.data.len() {{ Some(b) }} else {{ None }}
    }}
    fn get(&self, i: usize) -> Option<&'a u64> {{ self.data.get(i) }}
    fn fetch_n(&self, n: usize) -> Option<NextChunk<&'a u64, impl ExactSizeIterator<Item = &'a u64>>> {{
        self.progress_and_get_begin_idx(n).map(|b| NextChunk {{ begin_idx: b, values: self.data[b..(b + n).min(self.data.len())].iter() }})
    }}
    fn early_exit(&self) {{ self.counter.store(self.data.len()) }}
}}
fn main() {{
    use orx_concurrent_iter::iter::atomic_iter::AtomicIter;
    let data = vec![1u64, 2, 3];
    let it = Mine {{ data: &data, counter: AtomicCounter::new(), _m: {iex} }}.{adaptor}();
    {use}
}}
"""


def caps(c):
    return (c["send"], c["sync"])


def render_threads(row):
    ety, eex = ELEM[caps(row["elem"])]
    ity, iex = ELEM[caps(row["iter"])]
    k = row["kind"]
    if k in ("user_cloned", "user_copied"):
        use = {"local": "let _ = it.fetch_one();",
               "share": "std::thread::scope(|s| { s.spawn(|| { let _ = it.fetch_one(); }); });",
               "move": "std::thread::scope(|s| { s.spawn(move || { let _ = it.fetch_one(); }); });"}[row["use"]]
        return PRELUDE + USER.format(ity=ity, iex=iex, adaptor="cloned" if k == "user_cloned" else "copied", use=use)
    body = ["    let col: Vec<%s> = vec![%s, %s, %s];" % (ety, eex, eex, eex)]
    if k == "slice":
        body.append("    let it = col.as_slice().into_con_iter();")
    elif k == "vecref":
        body.append("    let it = col.con_iter();")
    elif k == "arrref":
        body = ["    let col: [%s; 2] = [%s, %s];" % (ety, eex, eex), "    let it = col.con_iter();"]
    elif k == "cloned_slice":
        body.append("    let it = col.as_slice().into_con_iter().cloned();")
    elif k == "vec":
        body.append("    let it = col.into_con_iter();")
    elif k == "array":
        body = ["    let col: [%s; 2] = [%s, %s];" % (ety, eex, eex), "    let it = col.into_con_iter();"]
    elif k == "range":
        body = ["    let it = IntoConcurrentIter::into_con_iter(0usize..4usize);"]
    elif k == "iter":
        body.append("    let it = Wrapped { items: col.into_iter(), _m: %s }.into_con_iter();" % iex)
    if row["use"] == "local":
        body.append("    let _ = it.next();")
    elif row["use"] == "share":
        body.append("    std::thread::scope(|s| { s.spawn(|| { let _ = it.next(); }); });")
    else:
        body.append("    std::thread::scope(|s| { s.spawn(move || { let _ = it.next(); }); });")
    return PRELUDE + "fn main() {\n" + "\n".join(body) + "\n}\n"


STMT = {
    "pull": "    let r = it.next();",
    "chunk": "    let c = it.next_chunk(2);",
    "bnew": "    let mut b = it.buffered_iter(2);",
    "bnext1": "    let k1 = b.next();",
    "bnext2": "    let k2 = b.next();",
    "dropcol": "    drop(col);",
    "dropit": "    drop(it);",
    "dropb": "    drop(b);",
    # unconditional moves (an `if let Some(x) = c` moves c only on one path, which leaves c maybe-initialised and
    # its drop at the end of the scope a use of the borrow; the model's use statement consumes the variable)
    "user": "    drop(r.map(|x| x.clone()));",
    "usec": "    drop(c.map(|x| x.values.count()));",
    "usek1": "    drop(k1.map(|x| x.values.count()));",
    "usek2": "    drop(k2.map(|x| x.values.count()));",
    "intoseq": "    let s = it.into_seq_iter(); drop(s);",
}
MKIT = {"vecref": "    let it = col.con_iter();", "vec": "    let it = col.into_con_iter();",
        "iter": "    let it = col.into_iter().into_con_iter();"}


def render_borrows(row):
    body = ["    let col: Vec<String> = vec![String::from(\"a\"), String::from(\"b\"), String::from(\"c\")];"]
    for s in row["stmts"]:
        body.append(MKIT[row["kind"]] if s == "mkit" else STMT[s])
    return PRELUDE + "fn main() {\n" + "\n".join(body) + "\n}\n"


THREAD_ERR = {"E0277", "E0599"}
BORROW_ERR = {"E0597", "E0499", "E0505", "E0502", "E0506", "E0716", "E0515", "E0503"}


def compile_rows(rows, jobs=8):
    """returns list of (row, compiled: bool, error codes)"""
    bindir = os.path.join(PROBES, "src", "bin")
    if os.path.isdir(bindir):
        shutil.rmtree(bindir)
    os.makedirs(bindir)
    if not os.path.exists(os.path.join(PROBES, "Cargo.lock")):
        shutil.copy("/repo/Cargo.lock", os.path.join(PROBES, "Cargo.lock"))
    names = []
    for i, row in enumerate(rows):
        src = render_threads(row) if row["part"] == "threads" else render_borrows(row)
        name = "p%04d" % i
        with open(os.path.join(bindir, name + ".rs"), "w") as f:
            f.write(src)
        names.append(name)
    # the library itself first (so that a crate that does not build is a tool error, not 100 rejections)
    p = subprocess.run(["cargo", "check", "--offline", "--lib"], cwd=PROBES, stdout=subprocess.PIPE, stderr=subprocess.STDOUT, text=True)
    if p.returncode != 0:
        raise RuntimeError("probe crate does not build:\n" + p.stdout[-2000:])
    # one cargo invocation for all bins: --keep-going reports every failing target
    p = subprocess.run(["cargo", "check", "--offline", "--bins", "--keep-going", "--message-format=json", "-j", str(jobs)],
                       cwd=PROBES, stdout=subprocess.PIPE, stderr=subprocess.DEVNULL, text=True)
    errs = {n: set() for n in names}
    ok = set()
    for line in p.stdout.splitlines():
        try:
            m = json.loads(line)
        except Exception:
            continue
        if m.get("reason") == "compiler-message":
            tgt = m["target"]["name"]
            msg = m["message"]
            if msg.get("level") == "error" and tgt in errs:
                code = (msg.get("code") or {}).get("code") or "E????"
                errs[tgt].add(code)
        elif m.get("reason") == "compiler-artifact":
            tgt = m["target"]["name"]
            if tgt in errs:
                ok.add(tgt)
    out = []
    for name, row in zip(names, rows):
        compiled = name in ok and not errs[name]
        out.append((row, compiled, sorted(errs[name])))
    return out


def judge(results):
    """list of disagreements: (row, what)"""
    bad = []
    for row, compiled, codes in results:
        want = THREAD_ERR if row["part"] == "threads" else BORROW_ERR
        if row["reject"] and compiled:
            bad.append((row, "compiles although the model says it must be rejected"))
        elif row["reject"] and not (set(codes) & want):
            bad.append((row, "rejected, but not for the expected reason: %s" % codes))
        elif row["accept"] and not compiled:
            bad.append((row, "does not compile although it is valid: %s" % codes))
    return bad


if __name__ == "__main__":
    import sys
    rows = [json.loads(l) for l in open(sys.argv[1])]
    res = compile_rows(rows)
    bad = judge(res)
    print(len(rows), "programs,", sum(1 for r in res if r[1]), "compile,", len(bad), "disagreements")
    for row, what in bad[:40]:
        print(json.dumps(row), "->", what)
