#!/bin/bash
# usage: confirm_mutant.sh <PID> <name>   -- confirms a mutant produced in the scratch worktree /tmp/wt/<PID>
# (1) test-suite with the change: the baseline's passing tests still pass; (2) demo fails with the change;
# (3) demo passes without it.  On success copies patch, demo and meta to /verif/seeded/<name>/.
PID=$1; NAME=${2:-$PID}; WT=/tmp/wt/$PID; pid=$(echo $PID | tr A-Z a-z)
cd $WT || exit 2
[ -s _out/patch.diff ] || { echo "no patch"; exit 2; }
git checkout -q -- src && git apply _out/patch.diff || { echo "patch does not apply"; exit 2; }
cp -f _out/demo_$pid.rs tests/demo_$pid.rs 2>/dev/null
REL=$(python3 -c "
import json
m=json.load(open('_out/meta.json'))['demo_cmd']
print('--release' if '--release' in m else '')")
DEMO="cargo test --offline $REL --test demo_$pid"
if grep -q miri _out/meta.json; then DEMO="cargo +nightly miri test --offline --test demo_$pid"; fi
echo "demo: $DEMO"
cargo nextest run --workspace --no-fail-fast --test-threads 8 --offline -E "not binary(demo_$pid)" --status-level pass --final-status-level none --color never > _out/suite_with.txt 2>&1
python3 - <<'PY' > _out/suite_cmp.txt
import re, json
passed=set()
for line in open('_out/suite_with.txt'):
    m=re.match(r'\s+PASS \[[^\]]*\]\s+(?:\(\s*\d+/\d+\)\s+)?(\S+)\s+(.*)$', line)
    if m: passed.add("%s::%s"%(m.group(1), m.group(2).strip()))
base=json.load(open('/root/.vp/BASELINE.json'))['stable_pass']
missing=[t for t in base if t not in passed]
print("baseline %d, still passing %d, missing %d"%(len(base), len(base)-len(missing), len(missing)))
for t in missing[:10]: print("MISSING",t)
PY
cat _out/suite_cmp.txt
grep -q "missing 0" _out/suite_cmp.txt || { echo "SUITE CATCHES IT"; exit 1; }
timeout 600 $DEMO > _out/demo_with.txt 2>&1; RC1=$?
echo "demo with change: rc=$RC1"
git apply -R _out/patch.diff || exit 2
timeout 600 $DEMO > _out/demo_without.txt 2>&1; RC2=$?
git apply _out/patch.diff
echo "demo without change: rc=$RC2"
if [ $RC1 -ne 0 ] && [ $RC2 -eq 0 ]; then
  mkdir -p /verif/seeded/$NAME
  cp _out/patch.diff /verif/seeded/$NAME/patch.diff
  cp _out/demo_$pid.rs /verif/seeded/$NAME/
  cp _out/meta.json /verif/seeded/$NAME/meta.agent.json
  echo "CONFIRMED -> /verif/seeded/$NAME"
else
  echo "NOT CONFIRMED"; tail -5 _out/demo_with.txt; tail -5 _out/demo_without.txt; exit 1
fi
