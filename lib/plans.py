"""Per-property decision procedures."""
import json, os, sys, time, hashlib, shutil
import engine
from engine import ToolError, WORK, VERIF
import suites

# mirror of Props!FlagsOf (checked against the TLA+ text by `check selftest`)
FLAGMAP = {
    "C01": ["NoDup", "NoLoss"],
    "C02": ["Index", "Value"],
    "C03": ["ChunkEmpty", "ChunkTooLong", "ChunkShort", "ChunkLen", "ChunkShape", "OutOfRange"],
    "C04": ["Prefix", "NoFalseEnd", "RealTime", "ThreadOrder"],
    "C05": ["EndSticks", "LenAfterEnd"],
    "C06": ["SkipSticks", "LenAfterSkip"],
    "C07": ["Mutex", "Race"],
    "C08": ["OwnTwice", "OwnNever", "OwnGarbage"],
    "C09": ["Hang"],
    "C10": ["SeqWrong"],
    "C11": ["LenIncreased", "LenWrong", "NotNoAfterEnd", "MaybeOnKnown", "NoDefinitive", "YesZero"],
    "C12": ["NoDup_fe", "Index_fe", "FoldResult", "NoFalseEnd_panic"],
    "C13": ["CloneCount", "SrcDropped", "SrcModified"],
    "C15": ["Leak"],
    "C17": ["Abort", "Panic"],
    "C19": ["RefIdentity", "SrcModified", "SrcDropped", "CloneStart"],
}

ALL_SPECS = ("TraceProps", "TraceHB", "TraceCounter", "TraceTicket")

BUNDLES = {
    "core": [suites.gen_counter, suites.gen_ticket, suites.rand_suite],
    "panic": [suites.panic_suite],
    "freeze": [suites.freeze_suite],
    "lowlevel": [suites.lowlevel_suite],
    "multi": [suites.multi_suite],
    "wrap": [suites.wrap_suite],
    "large": [suites.large_suite],
}


# ---------------------------------------------------------------------------------------------------
def facts_of(events):
    r = events[0]
    f = {"run": r["run"], "kind": r["kind"], "len": r["len"], "hint": r["hint"], "fam": r["fam"],
         "profile": r["profile"], "nthreads": r["threads"], "pnext": r.get("pnext", 0),
         "suite": (r.get("tag") or {}).get("suite", "") if isinstance(r.get("tag"), dict) else "",
         "ops": [], "hang": False, "abort": False, "panic": False, "mem_built": None, "mem_end": None,
         "overlap": False, "steps": 0, "skip": False, "idx": r.get("idx", -1), "consuming": r["consuming"], "maxn": 0}
    ops = set()
    for e in events:
        k = e["e"]
        if k == "Call":
            ops.add(e["op"])
            if isinstance(e.get("n"), int):
                f["maxn"] = max(f["maxn"], e["n"])
        elif k == "Mem":
            if e["at"] == "built":
                f["mem_built"] = e["live"]
            elif e["at"] == "end":
                f["mem_end"] = e["live"]
        elif k == "Hang":
            f["hang"] = True
        elif k == "Abort":
            f["abort"] = True
        elif k == "Ret" and e["res"].get("k") == "panic":
            f["panic"] = True
        elif k == "End":
            f["overlap"] = e.get("overlap", False)
            f["steps"] = e.get("steps", 0)
    f["ops"] = sorted(ops)
    f["skip"] = "skip" in ops
    return f


def run_bundle(name, tier, seed, profile="rel", specs=ALL_SPECS):
    key = "bundle_%s_%s_%d_%s_%s_%s" % (name, tier, seed, profile, engine.repo_hash(), engine.verif_hash())
    c = engine.cache_get(key)
    workdir = os.path.join(WORK, "bundles", key)
    if c and os.path.isdir(workdir):
        c["cached"] = True
        return c
    t0 = time.time()
    scenarios = []
    metas = {}
    for fn in BUNDLES[name]:
        sc, meta = fn(tier, seed, len(scenarios) + 1)
        scenarios += sc
        metas[fn.__name__] = meta
    if os.path.isdir(workdir):
        shutil.rmtree(workdir)
    parts, info = engine.run_scenarios(scenarios, workdir, profile)
    t1 = time.time()
    val = engine.validate(parts, specs)
    t2 = time.time()
    runs = {}
    for rid, events in engine.load_runs(parts).items():
        runs[str(rid)] = facts_of(events)
    res = {"name": name, "tier": tier, "seed": seed, "profile": profile, "workdir": workdir,
           "nruns": len(runs), "metas": metas, "info": info,
           "viol": {s: val[s]["viol"] for s in specs}, "div": {s: val[s]["div"] for s in specs},
           "events": val[specs[0]]["events"], "seen": val["TraceProps"]["seen"] if "TraceProps" in val else {},
           "matched": {s: val[s]["matched"] for s in specs},
           "runs": runs, "wall": {"harness": round(t1 - t0, 1), "tlc": round(t2 - t1, 1)}, "cached": False}
    engine.cache_put(key, res)
    # keep only the most recent bundle directories (disk)
    bdir = os.path.join(WORK, "bundles")
    olds = sorted((os.path.join(bdir, d) for d in os.listdir(bdir)), key=os.path.getmtime)
    for d in olds[:-12]:
        shutil.rmtree(d, ignore_errors=True)
    return res


def run_pair_bundle(name, tier, seed, specs=ALL_SPECS):
    """Two batches executing the same scenarios (C17: two build profiles; C13: adaptor and underlying iterator)."""
    key = "pair_%s_%s_%d_%s_%s" % (name, tier, seed, engine.repo_hash(), engine.verif_hash())
    c = engine.cache_get(key)
    wa = os.path.join(WORK, "bundles", key + "_a")
    wb = os.path.join(WORK, "bundles", key + "_b")
    if c and os.path.isdir(wa) and os.path.isdir(wb):
        c["cached"] = True
        return c
    t0 = time.time()
    for d in (wa, wb):
        if os.path.isdir(d):
            shutil.rmtree(d)
    if name == "dual":
        sc, meta = suites.dual_suite(tier, seed, 1)
        parts_a, info_a = engine.run_scenarios(sc, wa, "dbg")
        parts_b, info_b = engine.run_scenarios(sc, wb, "rel")
        mode = "dual"
    else:
        (sa, sb), meta = suites.twin_suite(tier, seed, 1)
        parts_a, info_a = engine.run_scenarios(sa, wa, "rel")
        parts_b, info_b = engine.run_scenarios(sb, wb, "rel")
        mode = "twin"
    t1 = time.time()
    va = engine.validate(parts_a, specs)
    vb = engine.validate(parts_b, specs)
    tw = engine.validate_twin(parts_a, parts_b, mode)
    t2 = time.time()
    runs = {}
    for rid, events in engine.load_runs(parts_a).items():
        f = facts_of(events)
        f["side"] = "a"
        runs[str(rid)] = f
    for rid, events in engine.load_runs(parts_b).items():
        f = facts_of(events)
        f["side"] = "b"
        runs["b%d" % rid] = f
    viol = {s: list(va[s]["viol"]) + [["b%d" % v[0]] + list(v[1:]) for v in vb[s]["viol"]] for s in specs}
    viol["TraceTwin"] = [[v[0], v[1]] for v in tw["viol"]]
    div = {s: list(va[s]["div"]) + list(vb[s]["div"]) for s in specs}
    res = {"name": name, "tier": tier, "seed": seed, "workdir": wa, "workdir_b": wb, "nruns": len(runs),
           "metas": {name + "_suite": meta}, "info": [info_a, info_b], "viol": viol, "div": div,
           "events": va[specs[0]]["events"] + vb[specs[0]]["events"],
           "seen": va["TraceProps"]["seen"], "matched": {"TraceTwin": tw["matched"],
                                                         **{s: merge_matched(va[s]["matched"], vb[s]["matched"]) for s in specs}},
           "runs": runs, "wall": {"harness": round(t1 - t0, 1), "tlc": round(t2 - t1, 1)}, "cached": False}
    engine.cache_put(key, res)
    return res


def run_boundary_bundle(tier, seed):
    """C16: boundary scripts executed by both build profiles, validated against the ideal cursor (TraceBoundary)."""
    key = "bnd_%s_%d_%s_%s" % (tier, seed, engine.repo_hash(), engine.verif_hash())
    c = engine.cache_get(key)
    wa = os.path.join(WORK, "bundles", key + "_a")
    wb = os.path.join(WORK, "bundles", key + "_b")
    if c and os.path.isdir(wa) and os.path.isdir(wb):
        c["cached"] = True
        return c
    t0 = time.time()
    for d in (wa, wb):
        if os.path.isdir(d):
            shutil.rmtree(d)
    sc, meta = suites.boundary_suite(tier, seed, 1)
    parts_a, info_a = engine.run_scenarios(sc, wa, "rel")
    parts_b, info_b = engine.run_scenarios(sc, wb, "dbg")
    t1 = time.time()
    va = engine.validate(parts_a, ("TraceBoundary",))
    vb = engine.validate(parts_b, ("TraceBoundary",))
    t2 = time.time()
    runs = {}
    for rid, events in engine.load_runs(parts_a).items():
        f = facts_of(events)
        f["side"] = "a"
        f["big"] = any(e["e"] == "Call" and e["n"] >= 1000000000 for e in events)
        f["start"], f["end"] = events[0]["start"], events[0]["end"]
        runs[str(rid)] = f
    for rid, events in engine.load_runs(parts_b).items():
        f = facts_of(events)
        f["side"] = "b"
        f["big"] = any(e["e"] == "Call" and e["n"] >= 1000000000 for e in events)
        f["start"], f["end"] = events[0]["start"], events[0]["end"]
        runs["b%d" % rid] = f
    viol = {"TraceProps": [], "TraceBoundary": [[v[0], v[1]] for v in va["TraceBoundary"]["viol"]]
            + [["b%d" % v[0], v[1]] for v in vb["TraceBoundary"]["viol"]]}
    res = {"name": "boundary", "tier": tier, "seed": seed, "workdir": wa, "workdir_b": wb, "nruns": len(runs),
           "metas": {"boundary_suite": meta}, "info": [info_a, info_b], "viol": viol, "div": {},
           "events": va["TraceBoundary"]["events"] + vb["TraceBoundary"]["events"], "seen": {},
           "matched": {"TraceBoundary": [x + y for x, y in zip(va["TraceBoundary"]["matched"], vb["TraceBoundary"]["matched"])]},
           "runs": runs, "wall": {"harness": round(t1 - t0, 1), "tlc": round(t2 - t1, 1)}, "cached": False}
    engine.cache_put(key, res)
    return res


def merge_matched(a, b):
    if isinstance(a, dict) or isinstance(b, dict):
        a = a if isinstance(a, dict) else {}
        b = b if isinstance(b, dict) else {}
        return {k: a.get(k, 0) + b.get(k, 0) for k in set(a) | set(b)}
    return [x + y for x, y in zip(a, b)]


def get_bundle(name, tier, seed):
    if name == "boundary":
        return run_boundary_bundle(tier, seed)
    if name in ("dual", "twin"):
        return run_pair_bundle(name, tier, seed)
    return run_bundle(name, tier, seed)


def run_trace(workdir, rid):
    """events of run rid of a bundle."""
    out = []
    for p in sorted(os.listdir(workdir)):
        if p.startswith("trace.") and p.endswith(".ndjson"):
            cur = False
            with open(os.path.join(workdir, p)) as f:
                for line in f:
                    if line.startswith('{"') and '"e":"Reset"' in line:
                        cur = json.loads(line)["run"] == rid
                    if cur:
                        out.append(json.loads(line))
            if out:
                break
    return out


def scenario_at(workdir, idx):
    with open(os.path.join(workdir, "scenarios.ndjson")) as f:
        for i, line in enumerate(f):
            if i == idx:
                return json.loads(line)
    return None


# ---------------------------------------------------------------------------------------------------
# known findings
# ---------------------------------------------------------------------------------------------------
def load_known():
    p = os.path.join(VERIF, "known_findings.json")
    if not os.path.exists(p):
        return []
    with open(p) as f:
        return json.load(f).get("findings", [])


def matches(finding, pid, flag, facts):
    if finding["property"] != pid:
        return False
    if "flags" in finding and flag not in finding["flags"]:
        return False
    if "kinds" in finding and facts["kind"] not in finding["kinds"]:
        return False
    cond = finding.get("cond")
    if cond:
        env = dict(facts)
        env["flag"] = flag
        env["ops"] = set(facts["ops"])
        try:
            return bool(eval(cond, {"__builtins__": {}, "len": len, "any": any, "all": all, "set": set, "min": min, "max": max}, env))
        except Exception:
            return False
    return True


# ---------------------------------------------------------------------------------------------------
# plans
# ---------------------------------------------------------------------------------------------------
CONC_E1 = ["counter_pulls", "counter_3t", "ticket_pulls", "ticket_3t"]

PLANS = {
    "C01": dict(e1=CONC_E1 + ["counter_comp", "ticket_comp"], inv=["Inv_C01"], bundles=["core", "large"]),
    "C02": dict(e1=CONC_E1 + ["counter_comp", "ticket_comp"], inv=["Inv_C02", "Inv_TicketIsPosition"], bundles=["core", "large", "boundary"],
                flags=["Index", "Value", "IndexB"]),
    "C03": dict(e1=CONC_E1 + ["ticket_owner"], inv=["Inv_C03"], bundles=["core", "large", "boundary"], zst=True,
                flags=["ChunkEmpty", "ChunkTooLong", "ChunkShort", "ChunkLen", "ChunkShape", "OutOfRange", "ChunkB"]),
    "C04": dict(e1=CONC_E1 + ["counter_skipq"], inv=["Inv_C04"], bundles=["core", "large"]),
    "C05": dict(e1=CONC_E1 + ["counter_skipq", "ticket_skip", "ticket_query", "ticket_revive"], inv=["Inv_C05", "Inv_NoWrap"], bundles=["core", "panic", "boundary"], revive=True,
                flags=["EndSticks", "LenAfterEnd", "EndSticksB"]),
    "C06": dict(e1=["counter_skipq", "counter_3t", "counter_range", "ticket_skip", "ticket_3t", "ticket_owner"],
                inv=["Inv_C06", "Inv_C01", "Inv_C02", "Inv_C04"], bundles=["core", "boundary"],
                flags=["SkipSticks", "LenAfterSkip", "SkipSticksB"],
                extra_flags={"skip": ["NoDup", "Index", "Value", "ThreadOrder", "RealTime"]}),
    "C07": dict(e1=["ticket_pulls", "ticket_skip", "ticket_comp", "ticket_3t", "ticket_owner"],
                inv=["Inv_C07_NoRace", "Inv_C07_Mutex"], bundles=["core", "wrap"], hb=True, revive=True,
                only=lambda f: f["fam"] == "ticket"),
    "C08": dict(e1=["counter_own_vec", "counter_own_arr", "counter_owner", "ticket_own", "ticket_own_seq"], inv=["Inv_C08", "Inv_OwnEnd"], bundles=["core", "panic"], only=lambda f: f["consuming"]),
    "C09": dict(e1=["counter_pulls", "counter_skipq", "counter_comp", "counter_3t", "ticket_pulls", "ticket_skip", "ticket_comp", "ticket_3t", "ticket_query"],
                inv=["Inv_C09_LockFree"], bundles=["core", "freeze"], deadlock=True, revive=True),
    "C10": dict(e1=["counter_owner", "counter_range", "ticket_owner"], inv=["Inv_C10"], bundles=["core", "large"]),
    "C11": dict(e1=["counter_skipq", "counter_owner", "counter_3t", "ticket_skip", "ticket_query", "ticket_owner"], inv=["Inv_C11"], bundles=["core"]),
    "C12": dict(e1=["counter_comp", "ticket_comp"], inv=["Inv_C12", "Inv_C01", "Inv_C02"], bundles=["core", "panic"],
                extra_flags={"comp": ["NoDup", "NoLoss", "Index", "Hang"]}),
    "C13": dict(e1=[], inv=[], bundles=["twin"], flags=["Differs", "CloneCount", "SrcDropped", "SrcModified"]),
    "C14": dict(e1=[], inv=[], bundles=["lowlevel"], flags=["OwnTwice", "NoDup", "OwnGarbage", "Abort"], static=True),
    # of the panic bundle only the runs in which the wrapped iterator panics (what the machinery had buffered must be
    # released); a panicking destructor is outside the histories C15 quantifies over
    "C15": dict(e1=["counter_own_vec", "counter_own_arr"], inv=["Inv_OwnEnd"], bundles=["core", "panic"],
                only=lambda f: f["consuming"] and f["suite"] not in ("panic_drop", "panic_closure", "panic_clone")),
    "C16": dict(e1=[], inv=[], bundles=["boundary"], flags=["Boundary", "BoundaryAfterWrap"]),
    "C17": dict(e1=[], inv=[], bundles=["dual"], flags=["Differs", "Abort", "Panic"]),
    "C18": dict(e1=["ticket_panic1", "ticket_panic2"], inv=["Inv_C01", "Inv_C07_Mutex"], bundles=["panic"], deadlock=True,
                flags=["Hang", "NoDup", "OwnTwice", "OwnNever", "OwnGarbage", "Mutex", "NoFalseEnd_panic", "EndSticks"]),
    "C19": dict(e1=["counter_multi"], inv=["Inv_C19", "Inv_C01", "Inv_C02", "Inv_C04", "Inv_C10", "Inv_C11"], bundles=["multi", "core"],
                flags=["RefIdentity", "SrcModified", "SrcDropped", "CloneStart"],
                extra_flags={"multi": ["NoDup", "NoLoss", "Index", "Value", "Prefix", "NoFalseEnd", "ThreadOrder", "RealTime", "SeqWrong",
                                       "LenWrong", "EndSticks", "SkipSticks", "ChunkLen", "ChunkShort", "OutOfRange"]},
                only=lambda f: not f["consuming"] and f["fam"] == "counter"),
}

LEVEL_TEXT = {
    "default": ("TLC explores every interleaving of the implementation-level TLA+ model for small constants with the "
                "property predicate of spec/Props as an invariant; the same predicate is evaluated by TLC on recorded "
                "executions of the real crate (all behaviours of the tiny configuration and simulated ones replayed under "
                "a deterministic scheduler, plus seeded random schedules), and every atomic step / result of those "
                "executions is matched against the model's actions (TraceCounter / TraceTicket)."),
}


def e1_for(pid, tier):
    plan = PLANS[pid]
    names = list(plan.get("e1", []))
    table = dict(suites.E1)
    if tier == "thorough":
        table.update(suites.E1_THOROUGH)
        fam = set(suites.E1[n][0] for n in names)
        for n, v in suites.E1_THOROUGH.items():
            if v[0] in fam:
                names.append(n)
    return [(n, table[n]) for n in names]


def decide(pid, tier, seed, t0):
    plan = PLANS[pid]
    flags = list(plan.get("flags") or FLAGMAP.get(pid, []))
    known = load_known()
    violations = []   # (where, what, replay path)
    notes = []
    e1_results = []
    # ---- E1 -------------------------------------------------------------------------------------
    for name, (module, consts, invs, dl) in e1_for(pid, tier):
        use = [i for i in plan["inv"] if (module == "Ticket" or not i.startswith("Inv_C07") and i != "Inv_TicketIsPosition")
               and (module == "Counter" or i not in ("Inv_C09_LockFree", "Inv_OwnEnd"))]
        r = engine.model_check(name, module, consts, invs, deadlock=dl)
        mine = r["violated"] in use or (r["violated"] == "deadlock" and plan.get("deadlock"))
        if r["violated"] and not mine:
            # another property's invariant stopped the exploration: re-run with this property's invariants only
            r = engine.model_check(name + "_" + pid, module, consts, use, deadlock=dl and plan.get("deadlock", False))
            mine = bool(r["violated"])
        if r["timeout"]:
            raise ToolError("TLC timed out on %s" % name)
        e1_results.append(r)
        if mine:
            path = write_replay(pid, "e1-" + name, {"engine": "E1", "config": r["constants"], "module": module,
                                                      "invariant": r["violated"], "counterexample": r.get("cex_text", "")})
            violations.append(("E1 " + name, r["violated"], path))
    if tier == "thorough" and pid == "C09":
        for name, (module, consts, props) in suites.E1_LIVENESS.items():
            r = engine.model_check(name, module, consts, [], view=None, deadlock=False, spec="FairSpec", properties=props, timeout=3000)
            e1_results.append(r)
            if r["violated"]:
                path = write_replay(pid, "e1-" + name, {"engine": "E1", "config": r["constants"], "module": module,
                                                          "invariant": "Live_C09", "counterexample": r.get("cex_text", "")})
                violations.append(("E1 " + name, "liveness", path))
    # unbounded-in-calls safety of the reservation scheme (Apalache, inductive invariant): run in the thorough tier,
    # reported from the cache in the quick tier
    apal = None
    apal_mods = (["CounterInd"] if pid in ("C01", "C04") else []) + (["TicketInd"] if pid in ("C01", "C02", "C07") else [])
    for mod in apal_mods:
        a = engine.apalache_inductive(run_if_missing=(tier == "thorough" or mod == "TicketInd"), module=mod)
        if a and not a["all_discharged"]:
            path = write_replay(pid, "apalache", a)
            violations.append(("Apalache " + mod, "inductive invariant not discharged", path))
        if a:
            apal = (apal or []) + [a]
    # ---- E2 -------------------------------------------------------------------------------------
    bundles = []
    relevant = 0
    nontrivial = 0
    samples = []
    seen_flags = {}
    for bname in plan.get("bundles", []):
        b = get_bundle(bname, tier, seed)
        bundles.append(b)
        only = plan.get("only")
        runs = b["runs"]
        # runs with a non-fused source are judged only by the properties that say something about them
        # likewise runs over zero-sized elements (no identity: only the shape of chunks is meaningful)
        rel = {rid for rid, f in runs.items() if (only is None or only(f)) and (f["suite"] != "revive" or plan.get("revive"))
               and (f["suite"] != "zst_seq" or plan.get("zst"))}
        relevant += len(rel)
        nontrivial += sum(1 for rid in rel if runs[rid]["overlap"] or runs[rid]["nthreads"] == 0)
        vio = list(b["viol"].get("TraceProps", []))
        if plan.get("hb"):
            vio += b["viol"].get("TraceHB", [])
        vio += b["viol"].get("TraceTwin", [])
        vio += b["viol"].get("TraceBoundary", [])
        extra = plan.get("extra_flags", {})
        per_run = {}
        for v in vio:
            rid, fl = str(v[0]), v[1]
            f = runs.get(rid)
            if f is None or rid not in rel:
                continue
            ok = fl in flags
            if not ok and "skip" in extra and f["skip"] and fl in extra["skip"]:
                ok = True
            if not ok and "comp" in extra and f["suite"] == "comp" and fl in extra["comp"]:
                ok = True
            if not ok and "multi" in extra and f["suite"] == "multi" and fl in extra["multi"]:
                ok = True
            if ok:
                per_run.setdefault(rid, []).append(fl)
        for rid, fls in sorted(per_run.items(), key=lambda kv: (len(kv[0]), kv[0])):
            f = runs[rid]
            unknown = []
            for fl in fls:
                kf = [k for k in known if matches(k, pid, fl, f)]
                if kf:
                    seen_flags.setdefault(kf[0]["id"], [0, kf[0]])[0] += 1
                else:
                    unknown.append(fl)
            if unknown and len(violations) < 200:
                path = None
                if sum(1 for v in violations if v[2]) < 5:
                    path = write_replay(pid, "%s-%s" % (bname, rid),
                                        {"engine": "E2", "bundle": bname, "flags": unknown, "facts": f,
                                         "scenario": scenario_at(b["workdir_b"] if f.get("side") == "b" else b["workdir"], f["idx"]),
                                         "trace": run_trace(b["workdir_b"] if f.get("side") == "b" else b["workdir"], f["run"]),
                                         "trace_other_side": (run_trace(b["workdir_b"] if f.get("side") == "a" else b["workdir"], f["run"])
                                                              if "side" in f else [])})
                violations.append(("E2 %s run %s (%s, %s)" % (bname, rid, f["kind"], f["suite"]), ",".join(unknown), path))
        ndiv = sum(len(v) for v in b["div"].values())
        if ndiv:
            ex = [d for v in b["div"].values() for d in v][:3]
            notes.append("NOTE model-drift: %d events of bundle %s are not steps of the implementation-level model "
                         "(e.g. %s); exhaustiveness is not transferred to the code for those runs" % (ndiv, bname, ex))
        if len(samples) < 3 and rel:
            rid = sorted((r for r in rel if not r.startswith("b")), key=int)[min(len(rel) - 1, 7 * (len(samples) + 1)) % max(1, len([r for r in rel if not r.startswith("b")]))]
            tr = run_trace(b["workdir"], int(rid))
            samples.append({"run": int(rid), "facts": runs[rid], "trace_head": tr[:25]})
    # ---- static clauses of C14: TLC-enumerated programs given to the compiler ------------------------
    static_info = None
    if plan.get("static"):
        static_info, svio = static_c14(tier, known, seen_flags)
        for v in svio:
            violations.append(v)
        relevant += static_info["programs"]
        nontrivial += static_info["programs"]
        samples = samples + static_info["samples"]
    # ---- verdict --------------------------------------------------------------------------------
    for kid, (n, k) in sorted(seen_flags.items()):
        print("KNOWN-FINDING: property=%s %s (%s; %d runs)" % (pid, k["what"], kid, n))
    for n in notes:
        print(n)
    shown = 0
    for where, what, path in violations:
        if path:
            print("VIOLATION property=%s replay=%s   [%s: %s]" % (pid, path, where, what))
            shown += 1
    if violations and not shown:
        print("VIOLATION property=%s replay=%s" % (pid, violations[0][2]))
    write_evidence(pid, tier, seed, t0, e1_results, bundles, relevant, nontrivial, samples, violations, notes, seen_flags,
                   extra=static_info, apal=apal)
    print("%s: %s  (E1: %d configurations, %d states; E2: %d runs; %.0f s)" % (
        pid, "VIOLATED" if violations else "held on everything explored", len(e1_results),
        sum(r["states"] for r in e1_results), relevant, time.time() - t0))
    return 1 if violations else 0


def write_replay(pid, name, obj):
    d = os.path.join(VERIF, "replays")
    os.makedirs(d, exist_ok=True)
    path = os.path.join(d, "%s-%s.json" % (pid, name))
    obj["property"] = pid
    with open(path, "w") as f:
        json.dump(obj, f, indent=1)
    return path


def static_c14(tier, known, seen_flags):
    import probes
    mx = 5 if tier == "quick" else 6
    rows = []
    states = 0
    for part in ("threads", "borrows"):
        g = engine.generate("bounds_" + part, "Bounds", {"Part": part, "MaxStmts": mx}, "all", spec="Spec", tag="ROW", inv="Emit")
        rows += g["behaviours"]
        states += g["states"]
    key = "probes_%s_%s_%d" % (engine.repo_hash(), engine.verif_hash(), len(rows))
    c = engine.cache_get(key)
    if c is None:
        res = probes.compile_rows(rows)
        c = {"results": [[r, ok, codes] for r, ok, codes in res]}
        engine.cache_put(key, c)
    res = [(r, ok, codes) for r, ok, codes in c["results"]]
    bad = probes.judge(res)
    vio = []
    for row, what in bad:
        facts = {"kind": row["kind"], "row": row, "ops": [], "suite": "static"}
        kf = [k for k in known if k["property"] == "C14" and k.get("static") and
              all(row.get(a) == b for a, b in k["static"].items())]
        if kf:
            seen_flags.setdefault(kf[0]["id"], [0, kf[0]])[0] += 1
            continue
        src = probes.render_threads(row) if row["part"] == "threads" else probes.render_borrows(row)
        path = write_replay("C14", "static-%d" % len(vio), {"engine": "compile-probe", "row": row, "verdict": what, "program": src})
        vio.append(("compile probe %s" % json.dumps(row)[:120], what, path))
    info = {"programs": len(rows), "must_reject": sum(1 for r in rows if r["reject"]),
            "must_accept": sum(1 for r in rows if r["accept"]), "compiled": sum(1 for r in res if r[1]),
            "disagreements_checked": len(bad), "bounds_states": states,
            "samples": [{"row": rows[0], "program": probes.render_threads(rows[0])},
                        {"row": rows[-1], "program": probes.render_borrows(rows[-1])}]}
    return info, vio


def write_evidence(pid, tier, seed, t0, e1, bundles, relevant, nontrivial, samples, violations, notes, known_seen, extra=None, apal=None):
    states = sum(r["states"] for r in e1)
    trans = sum(r["transitions"] for r in e1)
    cov = {
        "states": states, "transitions": trans,
        "traces_validated_against_impl": relevant,
        "evaluations": relevant, "distinct_nontrivial": nontrivial,
        "rule": ("a case is one execution of the real crate under the deterministic scheduler (programs + schedule "
                 "generated by TLC from the model, or seeded random); it is non-trivial when at least two calls of "
                 "different threads overlapped in time (or, for sequential histories, it is a distinct history); "
                 "scenario ids are distinct by construction"),
        "samples": samples or [{"e1": e1[0]}] if e1 else samples,
        "e1_configurations": [{k: r[k] for k in ("name", "module", "states", "transitions", "depth", "wall", "constants", "invariants", "deadlock_checked", "violated", "cached")} for r in e1],
        "e2_bundles": [{"name": b["name"], "runs": b["nruns"], "events": b["events"], "metas": b["metas"],
                        "trace_events_by_kind": b.get("seen", {}), "impl_level_matched": b.get("matched", {}),
                        "divergences": {k: len(v) for k, v in b["div"].items()}, "wall": b["wall"], "cached": b["cached"]}
                       for b in bundles],
        "exhaustive": False,
        "notes": notes,
        "known_findings_seen": {k: v[0] for k, v in known_seen.items()},
    }
    if extra:
        cov["static"] = {k: v for k, v in extra.items() if k != "samples"}
        cov["programs"] = extra["programs"]
        cov["disagreements_checked"] = extra["disagreements_checked"]
        cov["explanation"] = ("static clauses: TLC enumerates the finite family of minimal client programs from spec/Bounds.tla "
                              "(thread-safety capabilities x constructors x uses; borrow programs up to %d statements) with the "
                              "verdict of the capability model; each program is compiled against the current crate and the "
                              "compiler's verdict (accept / reject with a thread-safety or borrow error) is compared with the "
                              "model's. dynamic clause: sequences of safe public calls incl. the low-level AtomicIter methods "
                              "are executed and the ownership ledger is validated by TraceProps." % (5 if tier == "quick" else 6))
    # which actions of the implementation-level models were never the explanation of a recorded event (vacuity of E2)
    never = {}
    for b in bundles:
        for spec_name, m in (b.get("matched") or {}).items():
            if isinstance(m, dict):
                z = sorted(k for k, v in m.items() if v == 0)
                if z:
                    never.setdefault(b["name"], {})[spec_name] = z
    cov["model_actions_never_matched"] = never
    if apal:
        cov["apalache_inductive_invariant"] = apal
    if PLAN_LEVEL.get(pid) == "translation_validation":
        # pairs of runs compared by TraceTwin, and how many of them were found to differ (each is a reported violation)
        cov["programs"] = sum(b.get("matched", {}).get("TraceTwin", [0])[0] for b in bundles) + sum(
            1 for b in bundles for v in b["viol"].get("TraceTwin", []))
        cov["disagreements_checked"] = sum(len(b["viol"].get("TraceTwin", [])) for b in bundles)
    if not cov["samples"]:
        cov["samples"] = [{"note": "no run of this bundle is relevant to the property"}]
    if states == 0:
        # no E1 part: fall back to the generic keys
        cov.pop("states")
        cov.pop("transitions")
    ev = {"property_id": pid, "tier": tier, "seed": seed, "level": PLAN_LEVEL.get(pid, "model_checking"),
          "coverage": cov,
          "assumptions": ["sequentially consistent interleavings at the grain of atomic operations (weaker memory "
                          "behaviours are covered only through the logged orderings in TraceHB)",
                          "the deterministic scheduler and the probe element / iterator / allocator of /verif/harness",
                          "TLC 1.8.0, small constants as listed per configuration"],
          "wall_s": round(time.time() - t0, 1), "violations": len(violations)}
    os.makedirs(os.path.join(VERIF, "evidence"), exist_ok=True)
    with open(os.path.join(VERIF, "evidence", pid + ".json"), "w") as f:
        json.dump(ev, f, indent=1)


PLAN_LEVEL = {"C13": "translation_validation", "C17": "translation_validation",
              "C14": "other", "C16": "exploration"}


def replay(pid, path):
    with open(path) as f:
        obj = json.load(f)
    if obj.get("engine") == "E1":
        print("E1 counterexample (model level):")
        print(obj.get("counterexample", "")[:4000])
        return 0
    sc = obj["scenario"]
    sc["id"] = 1
    wd = os.path.join(WORK, "replay_%d" % os.getpid())
    parts, info = engine.run_scenarios([sc], wd, obj.get("facts", {}).get("profile", "rel"), jobs=1)
    val = engine.validate(parts, ALL_SPECS)
    fl = sorted(set(f for _, f in val["TraceProps"]["viol"] + val["TraceHB"]["viol"]))
    print("flags on the current tree:", fl, " divergences:", sum(len(val[s]["div"]) for s in ALL_SPECS))
    with open(parts[0]) as f:
        for line in f:
            print(line.rstrip()[:300])
    shutil.rmtree(wd, ignore_errors=True)
    mine = set(PLANS.get(pid, {}).get("flags") or FLAGMAP.get(pid, []))
    if mine & set(fl):
        print("VIOLATION property=%s replay=%s" % (pid, path))
        return 1
    return 0


def selftest(tier, seed):
    """non-vacuity: mutated designs must be rejected by E1; the flag table must equal Props!FlagsOf."""
    bad = 0
    for name, (module, consts, invs, dl) in suites.E1_NEGATIVE.items():
        r = engine.model_check(name, module, consts, invs, deadlock=dl)
        print("%-14s %-8s violated=%s states=%d" % (name, module, r["violated"], r["states"]))
        if not r["violated"]:
            bad += 1
    # ---- binding: a corrupted recording must be rejected by the trace specifications ---------------
    import random as _r
    rng = _r.Random(seed)
    import gen
    scs = []
    for i, kind in enumerate(["vec", "iter", "slice", "array", "refiter", "vec", "iter", "cloned_slice"] * 6):
        sc = gen.concurrent(rng, i + 1, kind, hint="exact") if i % 2 else gen.sequential(rng, i + 1, kind, p_skip=0.0)
        scs.append(sc)
    wd = os.path.join(WORK, "selftest")
    parts, info = engine.run_scenarios(scs, wd, "rel", jobs=1)
    lines = open(parts[0]).read().splitlines()
    base = engine.validate(parts, ALL_SPECS)
    ok0 = not any(base[s]["viol"] for s in ("TraceProps", "TraceHB")) and not any(base[s]["div"] for s in ALL_SPECS)
    print("binding baseline: clean =", ok0)
    if not ok0:
        bad += 1

    def variant(name, edit, expect):
        nonlocal bad
        out = []
        done = False
        for ln in lines:
            e = json.loads(ln)
            if not done:
                r = edit(e)
                if r == "delete":
                    done = True
                    continue
                if r:
                    done = True
                    ln = json.dumps(e)
            out.append(ln)
        p2 = os.path.join(wd, "corrupt_%s.ndjson" % name)
        open(p2, "w").write("\n".join(out) + "\n")
        v = engine.validate([p2], ALL_SPECS)
        got = set(f for _, f in v["TraceProps"]["viol"] + v["TraceHB"]["viol"]) | set("div:" + d[2] for s in ALL_SPECS for d in v[s]["div"])
        hit = bool(got & expect)
        print("binding %-18s edited=%s reported=%s  %s" % (name, done, sorted(got)[:6], "ok" if hit and done else "NOT REJECTED"))
        if not (hit and done):
            bad += 1

    def e_val(e):
        if e["e"] == "Ret" and e["res"].get("k") == "item":
            e["res"]["val"] += 1
            return True
    def e_ord(e):
        if e["e"] == "A" and e["op"] == "ld" and e["loc"] == 1 and e["ord"] == "Acquire" and e["t"] > 0:
            e["ord"] = "Relaxed"
            return True
    def e_drop(e):
        if e["e"] == "DropElem":
            return "delete"
    def e_saw(e):
        if e["e"] == "A" and e["op"] == "fa" and e["loc"] == 0:
            e["saw"] += 1
            return True
    def e_len(e):
        if e["e"] == "Ret" and e["res"].get("k") == "chunk" and len(e["res"]["lens"]) > 1:
            e["res"]["lens"][1] += 1
            return True
    variant("value", e_val, {"Value", "Index", "NoDup", "div:return"})
    variant("ordering", e_ord, {"Race", "div:load-yielded"})
    variant("missing-drop", e_drop, {"OwnNever", "div:return", "div:drop"})
    variant("observed-value", e_saw, {"div:fetch_add", "div:reserve"})
    variant("chunk-len", e_len, {"ChunkLen", "div:return"})
    print("selftest:", "FAILED" if bad else "ok")
    return 1 if bad else 0
