"""Thin wrapper around TLC: config generation, execution under timeout, output parsing."""
import json, os, re, subprocess, tempfile, time, shutil

VERIF = os.path.dirname(os.path.dirname(os.path.abspath(__file__)))
SPEC = os.path.join(VERIF, "spec")
WORK = os.path.join(VERIF, "work")


def tla_value(v):
    if isinstance(v, bool):
        return "TRUE" if v else "FALSE"
    if isinstance(v, int):
        return str(v)
    if isinstance(v, str):
        return '"%s"' % v
    if isinstance(v, (set, frozenset, list, tuple)):
        return "{" + ", ".join(tla_value(x) for x in sorted(v, key=lambda x: (str(type(x)), x))) + "}"
    raise ValueError(v)


def write_cfg(path, spec="Spec", constants=None, invariants=(), properties=(), view=None,
              constraint=None, postcondition=None, deadlock=False, symmetry=None):
    lines = ["SPECIFICATION %s" % spec]
    if constants:
        lines.append("CONSTANTS")
        for k, v in constants.items():
            lines.append("  %s = %s" % (k, tla_value(v)))
    if view:
        lines.append("VIEW %s" % view)
    if symmetry:
        lines.append("SYMMETRY %s" % symmetry)
    if constraint:
        lines.append("CONSTRAINT %s" % constraint)
    if invariants:
        lines.append("INVARIANTS")
        lines += ["  " + i for i in invariants]
    if properties:
        lines.append("PROPERTIES")
        lines += ["  " + i for i in properties]
    if postcondition:
        lines.append("POSTCONDITION %s" % postcondition)
    lines.append("CHECK_DEADLOCK %s" % ("TRUE" if deadlock else "FALSE"))
    with open(path, "w") as f:
        f.write("\n".join(lines) + "\n")


class TlcResult:
    def __init__(self, rc, out, wall):
        self.rc = rc
        self.out = out
        self.wall = wall
        m = re.search(r"(\d[\d,]*) states generated, (\d[\d,]*) distinct states found", out)
        self.generated = int(m.group(1).replace(",", "")) if m else 0
        self.distinct = int(m.group(2).replace(",", "")) if m else 0
        m = re.search(r"depth of the complete state graph search is (\d+)", out)
        self.depth = int(m.group(1)) if m else 0
        self.ok = "Model checking completed. No error has been found." in out
        m = re.search(r"Invariant (\w+) is violated", out)
        self.violated = m.group(1) if m else None
        if self.violated is None and "Temporal properties were violated" in out:
            self.violated = "temporal"
        if self.violated is None and "Deadlock reached" in out:
            self.violated = "deadlock"
        self.timeout = rc == 124
        self.error = (not self.ok) and self.violated is None

    def printed(self, tag):
        """Values printed by PrintT(<<tag, json-string, ...>>): returns list of parsed JSON."""
        res = []
        pre = '<<"%s", ' % tag
        for line in self.out.splitlines():
            if line.startswith(pre):
                body = line[len(pre):]
                # body is a TLA+ string literal  "...."  possibly followed by more tuple items
                m = re.match(r'"((?:[^"\\]|\\.)*)"', body)
                if m:
                    res.append(json.loads(json.loads('"' + m.group(1) + '"')))
        return res

    def counterexample(self):
        i = self.out.find("Error:")
        return self.out[i:] if i >= 0 else ""


def run_tlc(module, cfg_path, workers=8, timeout=600, env=None, extra=(), jvm=None, tag=None):
    meta = tempfile.mkdtemp(prefix="tlc_", dir=WORK)
    e = dict(os.environ)
    if env:
        e.update(env)
    if jvm:
        e["JAVA_TOOL_OPTIONS"] = jvm
    cmd = ["timeout", str(timeout), "tlc", "-workers", str(workers), "-metadir", meta, "-cleanup",
           "-noGenerateSpecTE", "-config", cfg_path] + list(extra) + [os.path.join(SPEC, module + ".tla")]
    t0 = time.time()
    p = subprocess.run(cmd, stdout=subprocess.PIPE, stderr=subprocess.STDOUT, env=e, cwd=SPEC, text=True)
    wall = time.time() - t0
    shutil.rmtree(meta, ignore_errors=True)
    return TlcResult(p.returncode, p.stdout, wall)
