#!/usr/bin/env python3
"""Writes seeded/<name>/meta.json (property, what the change needs to manifest, what was run, which checks
catch it) from the author's meta.agent.json and the trial logs work/try_all*.log, and prints the table
for DESIGN.md."""
import json, os, re, glob
V = "/verif"
res = {}
for log in sorted(glob.glob(V + "/work/try_*.log"), key=os.path.getmtime):
    for line in open(log):
        m = re.match(r"RESULT (\S+)((?: C\d+:\d)+)", line)
        if m:
            d = res.setdefault(m.group(1), {})
            for x in m.group(2).split():
                p, rc = x.split(":")
                d[p] = int(rc)
        m = re.match(r"--- (\S+) / (C\d+): rc=(\d)", line)
        if m:
            cur = (m.group(1), m.group(2))
            continue
        m = re.match(r"VIOLATION property=(C\d+) replay=\S+\s+\[(.*)\]", line)
        if m and 'cur' in dir():
            res.setdefault(cur[0], {}).setdefault("why", {}).setdefault(m.group(1), []).append(m.group(2)[:120])
rows = []
for d in sorted(os.listdir(V + "/seeded")):
    path = os.path.join(V, "seeded", d)
    if not os.path.isdir(path):
        continue
    agent = {}
    if os.path.exists(path + "/meta.agent.json"):
        agent = json.load(open(path + "/meta.agent.json"))
    r = res.get(d, {})
    why = r.pop("why", {}) if isinstance(r.get("why"), dict) else {}
    caught = sorted(p for p, rc in r.items() if rc == 1)
    missed = sorted(p for p, rc in r.items() if rc == 0)
    note = ""
    extra = os.path.join(path, "note.txt")
    if os.path.exists(extra):
        note = open(extra).read().strip()
    meta = {
        "name": d,
        "property": agent.get("property") or (note.split()[0] if note else ""),
        "origin": "independent sub-agent (given only the property text and a scratch worktree)" if agent else "reverse of a fix: commit of /repo (the original defect)",
        "summary": agent.get("summary", note),
        "needs": agent.get("needs", ""),
        "confirmed": ("suite unchanged with the change, demo fails with it and passes without it (lib/confirm_mutant.sh in a scratch worktree)" if agent else "applies on HEAD, compiles, test-suite passes (it passed with the defect present)"),
        "checks_run": sorted(r.keys()),
        "caught_by": caught, "not_caught_by": missed,
        "first_reports": {p: v[:2] for p, v in why.items()},
        "note": note,
    }
    json.dump(meta, open(path + "/meta.json", "w"), indent=1)
    rows.append((d, meta["property"], ",".join(caught) or "-", ",".join(missed) or "-", (meta["needs"] or meta["summary"])[:110].replace("|", "/").replace("\n", " ")))
print("| seeded change | targets | caught by | run but silent | needs |")
print("|---|---|---|---|---|")
for r in rows:
    print("| %s | %s | %s | %s | %s |" % r)
