#![allow(unused, dead_code)]
use orx_concurrent_iter::*;
#[derive(Clone)]
struct NoSend(*const u8);
unsafe impl Sync for NoSend {}
struct Wrapped<T, M> { items: std::vec::IntoIter<T>, _m: M }
impl<T, M> Iterator for Wrapped<T, M> { type Item = T; fn next(&mut self) -> Option<T> { self.items.next() } }
fn main() {
    let it = IntoConcurrentIter::into_con_iter(0usize..4usize);
    std::thread::scope(|s| { s.spawn(|| { let _ = it.next(); }); });
}
