#![allow(unused, dead_code)]
use orx_concurrent_iter::*;
#[derive(Clone)]
struct NoSend(*const u8);
unsafe impl Sync for NoSend {}
struct Wrapped<T, M> { items: std::vec::IntoIter<T>, _m: M }
impl<T, M> Iterator for Wrapped<T, M> { type Item = T; fn next(&mut self) -> Option<T> { self.items.next() } }
fn main() {
    let col: Vec<u64> = vec![7u64, 7u64, 7u64];
    let it = Wrapped { items: col.into_iter(), _m: 7u64 }.into_con_iter();
    std::thread::scope(|s| { s.spawn(move || { let _ = it.next(); }); });
}
