#![allow(unused, dead_code)]
use orx_concurrent_iter::*;
#[derive(Clone)]
struct NoSend(*const u8);
unsafe impl Sync for NoSend {}
struct Wrapped<T, M> { items: std::vec::IntoIter<T>, _m: M }
impl<T, M> Iterator for Wrapped<T, M> { type Item = T; fn next(&mut self) -> Option<T> { self.items.next() } }

struct Mine<'a> { data: &'a [u64], counter: AtomicCounter, _m: NoSend }
impl<'a> orx_concurrent_iter::iter::atomic_iter::AtomicIter<&'a u64> for Mine<'a> {
    fn counter(&self) -> &AtomicCounter { &self.counter }
    fn progress_and_get_begin_idx(&self, n: usize) -> Option<usize> {
        let b = self.counter.fetch_and_add(n);
        if b < self.data.len() { Some(b) } else { None }
    }
    fn get(&self, i: usize) -> Option<&'a u64> { self.data.get(i) }
    fn fetch_n(&self, n: usize) -> Option<NextChunk<&'a u64, impl ExactSizeIterator<Item = &'a u64>>> {
        self.progress_and_get_begin_idx(n).map(|b| NextChunk { begin_idx: b, values: self.data[b..(b + n).min(self.data.len())].iter() })
    }
    fn early_exit(&self) { self.counter.store(self.data.len()) }
}
fn main() {
    use orx_concurrent_iter::iter::atomic_iter::AtomicIter;
    let data = vec![1u64, 2, 3];
    let it = Mine { data: &data, counter: AtomicCounter::new(), _m: NoSend(std::ptr::null()) }.copied();
    let _ = it.fetch_one();
}
