#![allow(unused, dead_code)]
use orx_concurrent_iter::*;
#[derive(Clone)]
struct NoSend(*const u8);
unsafe impl Sync for NoSend {}
struct Wrapped<T, M> { items: std::vec::IntoIter<T>, _m: M }
impl<T, M> Iterator for Wrapped<T, M> { type Item = T; fn next(&mut self) -> Option<T> { self.items.next() } }
fn main() {
    let col: [NoSend; 2] = [NoSend(std::ptr::null()), NoSend(std::ptr::null())];
    let it = col.con_iter();
    std::thread::scope(|s| { s.spawn(move || { let _ = it.next(); }); });
}
