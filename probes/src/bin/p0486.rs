#![allow(unused, dead_code)]
use orx_concurrent_iter::*;
#[derive(Clone)]
struct NoSend(*const u8);
unsafe impl Sync for NoSend {}
struct Wrapped<T, M> { items: std::vec::IntoIter<T>, _m: M }
impl<T, M> Iterator for Wrapped<T, M> { type Item = T; fn next(&mut self) -> Option<T> { self.items.next() } }
fn main() {
    let col: Vec<String> = vec![String::from("a"), String::from("b"), String::from("c")];
    let it = col.into_con_iter();
    let mut b = it.buffered_iter(2);
    drop(b);
    let c = it.next_chunk(2);
    if let Some(x) = c { let _n = x.values.count(); }
}
